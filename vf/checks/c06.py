"""C06 — a view's gradient is the corresponding view of its base's gradient."""

from __future__ import annotations

import numpy as np
from hypothesis import strategies as st

from vf import ir
from vf.common import Mismatch, Recorder, drive, fmt_exc, reset_mygrad
from vf.gen import (Builder, VIEWS, draw_shape, draw_view_params, step_binary, step_nary, step_reduce,
                    step_shape_nonview, step_unary, step_view)
from vf.checks.c01 import _skeleton

PROPERTY = "C06"
RULE = (
    "A base (leaf, C- or F-ordered, or an intermediate), a tree of view chains on it (basic slices with "
    "negative/strided steps, reshapes, ravel, squeeze/expand_dims, transposes, swapaxes/moveaxis, diagonal "
    "einsum, broadcast_to, depth <= 4), then 2-6 consumers attached to base and views in a drawn order and of "
    "drawn kinds (elementwise, transpose-like, matmul/einsum, reductions, advanced indexing, joins) so that the "
    "layout and order of the base's first gradient contribution vary; L = weighted sum of the consumers; one "
    "L.backward(). Oracle for every view v with base b: (v.grad is None) == (b.grad is None); v.grad equals "
    "the NumPy view chain applied to b.grad (index map); shares_memory(v.grad, b.grad) for non-empty v; "
    "re-reading .grad (also after the graph is cleared) gives the same values still sharing memory; for every "
    "pair of tensors whose data do not share memory the gradients do not share memory; plus the C01 value oracle. "
    "Non-trivial = >=1 view chain on a base that receives gradient and >=2 consumers; distinct by skeleton."
)
ASSUMPTIONS = ["no constant= flags on view ops here (C10 covers them); single graph epoch"]


@st.composite
def cases(draw):
    b = Builder(draw, max_elems=24, allow_int=False)
    b.views_tensors_only = True
    shape = draw_shape(draw, max_ndim=3, max_side=4, cap=24)
    if len(shape) < 1:
        shape = [draw(st.integers(2, 6))]
    order = "F" if (len(shape) >= 2 and draw(st.integers(0, 2)) == 0) else "C"
    x = b.leaf("var", shape, order=order)
    base = x
    if draw(st.integers(0, 3)) == 0:
        # an intermediate as base
        base = b.op(draw(st.sampled_from(["tanh", "negative", "T", "square"])), [x]) or x
    # view tree
    family = [base]
    nviews = draw(st.integers(1, 6))
    for _ in range(nviews):
        parent = family[draw(st.integers(0, len(family) - 1))]
        name = draw(st.sampled_from(VIEWS))
        p = draw_view_params(draw, name, b.shape(parent))
        if p is None:
            continue
        p.pop("method", None)
        h = b.op(name, [parent], p)
        if h is not None and b.ref.owner[h] == b.ref.owner[base]:
            family.append(h)
    # a second, unrelated leaf (its grad must never alias the family's)
    if draw(st.booleans()):
        b.leaf("var", draw_shape(draw, max_ndim=2, max_side=3, cap=9))
    # consumers, in drawn order, reading family members
    ncons = draw(st.integers(2, 6))
    outs = []
    steps = [step_unary, step_binary, step_binary, step_reduce, step_shape_nonview, step_nary, step_view]
    b.recency_bias = False
    for _ in range(ncons):
        f = draw(st.sampled_from(steps))
        # steer operand choice toward the family by temporarily hiding other handles is complex; instead try twice
        h = f(b)
        if h is not None and not b.ref.const[h]:
            outs.append(h)
    # make sure at least two consumers read the family directly
    for member in (family[draw(st.integers(0, len(family) - 1))], family[-1]):
        name = draw(st.sampled_from(["multiply_w", "T_mul", "sum", "matmul_like"]))
        w = b.leaf("array", list(b.shape(member)), lo=-20, hi=20)
        if name == "T_mul" and len(b.shape(member)) >= 2:
            t = b.op("T", [member])
            wt = b.op("T", [w]) if False else b.leaf("array", list(b.shape(t)), lo=-20, hi=20)
            h = b.op("multiply", [t, wt])
        else:
            h = b.op("multiply", [member, w])
        if h is not None:
            outs.append(h)
    terms = []
    order_ = draw(st.permutations(list(range(len(outs)))))
    for i in order_:
        s_ = b.op("sum", [outs[i]])
        if s_ is not None:
            terms.append(s_)
    L = terms[0] if len(terms) == 1 else b.op("add_sequence", terms)
    if L is None:
        L = terms[0]
    return {"prog": b.prog, "L": L, "base": base}


def check_case(case, rec=None):
    prog, L = case["prog"], case["L"]
    reset_mygrad()
    run = ir.MgRun(prog).run()
    if run.error is not None:
        return Mismatch("raised", f"stmt {run.error_idx}: {fmt_exc(run.error)}")
    mg = run.mg
    try:
        exp = ir.expected_after_backward(prog, L, max_elems=300)
        ref = exp.ref
    except ir.HarnessError:
        # too many elements for per-element complex-step: the C06 clauses themselves only need the structural model
        exp = None
        ref = ir.RefRun(prog).run()
    tens = [h for h, t in run.env.items() if isinstance(t, mg.Tensor)]
    views = [h for h in tens if ref.owner[h] != h and run.env[h] is not run.env[ref.owner[h]]]
    if rec is not None:
        depsL = ref.deps(L)
        nviews_on_graded = sum(1 for h in views if (ref.owner[h], ref.famver[ref.owner[h]]) in depsL)
        if exp is None:
            rec.label("structural_only")
        ncons = sum(1 for s in prog["stmts"] if s["k"] == "op" and not ir.OPS[s["op"]].view)
        labels = []
        if any(s["k"] == "leaf" and s.get("order") == "F" for s in prog["stmts"]):
            labels.append("F_ordered_base")
        if any(s["k"] == "op" and s["op"] in ("T", "transpose", "swapaxes", "moveaxis") for s in prog["stmts"]):
            labels.append("transpose_like_present")
        depth = {}
        for s in prog["stmts"]:
            if s["k"] == "op" and ir.OPS[s["op"]].view and s["args"] and s["h"] in views:
                depth[s["h"]] = depth.get(s["args"][0], 0) + 1
        if depth and max(depth.values()) >= 2:
            labels.append("view_of_view")
        rec.note([_skeleton(prog), L], nviews_on_graded >= 1 and ncons >= 2, labels, sample={"L": L, "stmts": prog["stmts"]})
    try:
        run.env[L].backward()
    except Exception as e:  # noqa: BLE001
        return Mismatch("backward_raised", fmt_exc(e))
    mm = ir.compare_grads(exp, run) if exp is not None else None
    if mm is not None:
        return mm
    for h in views:
        v = run.env[h]
        o = ref.owner[h]
        bt = run.env[o]
        if v.base is not bt:
            continue  # C04's subject
        gv, gb = v.grad, bt.grad
        if (gv is None) != (gb is None):
            return Mismatch("view_grad_presence", f"h{h}.grad is {'None' if gv is None else 'set'} but base h{o}.grad is "
                                                  f"{'None' if gb is None else 'set'}", h=h)
        if gv is None:
            continue
        want = gb.ravel(order="C")[ref.imap[h]] if gb.flags.c_contiguous else np.asarray(gb).reshape(-1)[ref.imap[h]] \
            if False else gb.reshape(-1)[ref.imap[h]]
        if gv.shape != want.shape or not np.array_equal(gv, want, equal_nan=True):
            return Mismatch("view_grad_value", f"h{h}.grad is not the view-chain applied to base h{o}.grad", h=h)
        if v.size > 0 and not np.shares_memory(gv, gb):
            return Mismatch("view_grad_not_shared", f"h{h}.grad does not share memory with base h{o}.grad", h=h)
        g2 = v.grad
        if g2 is None or not np.array_equal(g2, gv, equal_nan=True) or (v.size > 0 and not np.shares_memory(g2, bt.grad)):
            return Mismatch("view_grad_unstable", f"re-reading h{h}.grad gives a different / detached result", h=h)
    for i, h1 in enumerate(tens):
        for h2 in tens[i + 1:]:
            t1, t2 = run.env[h1], run.env[h2]
            if t1.grad is None or t2.grad is None or t1.size == 0 or t2.size == 0:
                continue
            if not np.shares_memory(t1.data, t2.data) and np.shares_memory(t1.grad, t2.grad):
                return Mismatch("grad_aliasing", f"h{h1} and h{h2} do not share data memory but their gradients share memory")
    return None


N = {"quick": 400, "thorough": 3000}


def shard_plan(tier):
    return [f"s{i}" for i in range(16)]


def run_shard(shard, seed, tier):
    rec = Recorder()
    viol = drive(prop=PROPERTY, name="view_grad", strategy=cases(), check_case=lambda c: check_case(c, rec), rec=rec,
                 seed=seed, max_examples=N[tier])
    out = rec.result()
    out["violations"] = viol
    return out


def replay(check, case):
    if check == "inplace_grad":
        from vf.checks import c05

        return c05.check_case(case)
    return check_case(case)
