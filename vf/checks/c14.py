"""C14 — seeding backward and the shape/dtype of every stored gradient."""

from __future__ import annotations

import numpy as np
from hypothesis import strategies as st

from vf import ir
from vf.common import Mismatch, Recorder, drive, fmt_exc, reset_mygrad
from vf.gen import functional_program
from vf.checks.c01 import _skeleton

PROPERTY = "C14"
RULE = (
    "DAG programs as in C01 but with float16/float32/float64 leaves (mixed), terminal tensors of every rank "
    "incl. 0-d, and a drawn seed: none, python scalar, 0-d array, full-shape array, lower-rank / size-1 "
    "broadcastable arrays, tensors, lists, int and float32 seeds (all values exactly representable in float16), "
    "or a non-broadcastable seed (wrong trailing dim, higher rank, mutual broadcasting). Oracles: (a) "
    "L.backward() == L.sum().backward() and L.backward(g) == (L*g).sum().backward() on every tensor's gradient "
    "(None-ness equal, values within 16 eps of the lowest-precision dtype in the program); (b) a "
    "non-broadcastable g raises ValueError and afterwards no tensor holds a gradient; (c) every non-None .grad "
    "of every tensor is an ndarray of exactly the tensor's shape and dtype. Non-trivial = non-scalar L with a "
    "non-uniform or broadcast seed, or a non-float64 dtype in the program; distinct by (skeleton, L, seed kind/shape, dtypes)."
)
ASSUMPTIONS = ["seed values are dyadic rationals so casting g to L's dtype is exact in both spellings"]

FLOATS = ("float64", "float32", "float16")


def _seed_vals(draw, n):
    return [k / 4.0 for k in draw(st.lists(st.integers(-12, 12), min_size=n, max_size=n))]


@st.composite
def cases(draw):
    dts = draw(st.sampled_from([("float64",), ("float32",), ("float16",), FLOATS, ("float64", "float32")]))
    b = draw(functional_program(max_ops=8, min_ops=2, allow_const_view=False, dtypes=dts, allow_int=False,
                                ufunc_options=True, ufunc_where=False))  # (where= without out= leaves unspecified values)
    r = b.ref
    tens = [h for h in r.env if r.is_tensor[h] and not r.const[h]]
    if not tens:
        tens = [h for h in r.env if r.is_tensor[h]]
    nonscalar = [h for h in tens if r.env[h].ndim > 0 and r.env[h].size > 1]
    pool = nonscalar if nonscalar and draw(st.integers(0, 3)) > 0 else tens
    L = pool[max(draw(st.integers(0, len(pool) - 1)), draw(st.integers(0, len(pool) - 1)))]
    shape = list(r.env[L].shape)
    nd = len(shape)
    kind = draw(st.sampled_from(["none", "scalar", "zerod", "full", "full", "lower", "ones_dims", "tensor", "list",
                                 "int", "f32", "bad_trailing", "bad_rank", "bad_mutual"]))
    seed = None
    valid = True
    if kind == "none":
        seed = None
    elif kind == "scalar":
        seed = {"kind": "scalar", "v": _seed_vals(draw, 1)[0]}
    else:
        if kind == "zerod":
            gshape = []
        elif kind in ("full", "tensor", "list", "int", "f32"):
            gshape = list(shape)
        elif kind == "lower":
            k = draw(st.integers(0, nd))
            gshape = shape[k:]
        elif kind == "ones_dims":
            gshape = [1 if draw(st.booleans()) else s for s in shape]
        elif kind == "bad_trailing":
            if nd == 0:
                gshape = [2]
            else:
                gshape = shape[:-1] + [shape[-1] + 1]
            valid = False
        elif kind == "bad_rank":
            gshape = [draw(st.integers(1, 2))] + shape
            valid = False
        else:  # bad_mutual: L has a size-1 axis that g would broadcast up
            ones = [i for i, s in enumerate(shape) if s == 1]
            if not ones:
                gshape = [2] + shape
            else:
                gshape = list(shape)
                gshape[ones[0]] = 2
            valid = False
        n = int(np.prod(gshape)) if gshape else 1
        vals = _seed_vals(draw, n)
        sk = {"tensor": "tensor", "list": "list"}.get(kind, "array")
        dt = {"int": "int64", "f32": "float32"}.get(kind, "float64")
        if kind == "int":
            vals = [float(int(v)) for v in vals]
        if sk == "list" and not gshape:
            sk = "array"
        seed = {"kind": sk, "v": vals, "shape": gshape, "dtype": dt}
        if len(gshape) >= 2 and sk in ("array", "tensor") and draw(st.integers(0, 2)) == 0:
            seed["order"] = "F"  # caller-owned Fortran-ordered seed
    return {"prog": b.prog, "L": L, "seed": seed, "valid": valid, "seed_kind": kind, "dtypes": list(dts)}


def _grads(run):
    mg = run.mg
    return {h: (None if t.grad is None else np.array(t.grad)) for h, t in run.env.items() if isinstance(t, mg.Tensor)}


def _invariant(run, where):
    mg = run.mg
    for h, t in run.env.items():
        if isinstance(t, mg.Tensor):
            g = t.grad
            if g is not None and (type(g) is not np.ndarray or g.shape != t.shape or g.dtype != t.dtype):
                return Mismatch("grad_meta", f"{where}: h{h} grad is {type(g).__name__} shape {getattr(g, 'shape', None)} "
                                             f"dtype {getattr(g, 'dtype', None)}; tensor {t.shape} {t.dtype}", h=h)
    return None


def check_case(case, rec=None):
    prog, L, seed = case["prog"], case["L"], case["seed"]
    reset_mygrad()
    run = ir.MgRun(prog).run()
    if run.error is not None:
        return Mismatch("raised", f"stmt {run.error_idx}: {fmt_exc(run.error)}")
    mg = run.mg
    t = run.env[L]
    lowest = min((np.finfo(x.dtype).eps for x in run.env.values() if isinstance(x, mg.Tensor) and x.dtype.kind == "f"),
                 key=lambda e: -e, default=np.finfo(np.float64).eps)
    if rec is not None:
        nonuniform = seed is not None and seed["kind"] != "scalar" and len(set(seed["v"])) > 1
        bcast = seed is not None and seed["kind"] != "scalar" and list(seed["shape"]) != list(t.shape)
        nontrivial = (t.ndim > 0 and (nonuniform or bcast)) or lowest > 1e-15 or not case["valid"]
        labels = ["seed_" + case["seed_kind"], f"L_ndim={t.ndim}", "lowest_eps=%.0e" % lowest]
        if seed is not None and seed.get("order") == "F":
            labels.append("seed_F_ordered")
        rec.note([_skeleton(prog), L, case["seed_kind"], seed and seed.get("shape"), case["dtypes"]], nontrivial, labels,
                 sample={"L": L, "seed": seed, "stmts": prog["stmts"]})

    if not case["valid"]:
        try:
            t.backward(ir.decode_seed(mg, seed))
        except ValueError:
            pass
        except Exception as e:  # noqa: BLE001
            return Mismatch("wrong_exception", f"non-broadcastable seed raised {fmt_exc(e)} (expected ValueError)")
        else:
            return Mismatch("bad_seed_accepted", f"seed of shape {seed['shape']} accepted for L of shape {t.shape}")
        for h, x in run.env.items():
            if isinstance(x, mg.Tensor) and x.grad is not None:
                return Mismatch("grad_written_on_rejected_seed", f"h{h} holds a gradient after the rejected backward()")
        return None

    try:
        if seed is None:
            t.backward()
        else:
            t.backward(ir.decode_seed(mg, seed))
    except Exception as e:  # noqa: BLE001
        return Mismatch("backward_raised", fmt_exc(e))
    mm = _invariant(run, "L.backward(g)")
    if mm is not None:
        return mm
    g1 = _grads(run)

    # the equivalent explicit reduction
    stmts = list(prog["stmts"])
    nh = max(s["h"] for s in stmts if "h" in s) + 1
    if seed is None:
        stmts.append({"k": "op", "h": nh, "op": "sum", "args": [L]})
        T = nh
    else:
        if seed["kind"] == "scalar":
            stmts.append({"k": "leaf", "h": nh, "kind": "scalar", "shape": [], "vals": [0], "exact": seed["v"]})
        else:
            stmts.append({"k": "leaf", "h": nh, "kind": "array", "shape": seed["shape"], "vals": [0],
                          "raw": seed["v"], "dtype": "float64"})
        stmts.append({"k": "op", "h": nh + 1, "op": "multiply", "args": [L, nh]})
        stmts.append({"k": "op", "h": nh + 2, "op": "sum", "args": [nh + 1]})
        T = nh + 2
    reset_mygrad()
    run2 = ir.MgRun({"stmts": stmts}).run()
    if run2.error is not None:
        return Mismatch("raised_equiv", f"stmt {run2.error_idx}: {fmt_exc(run2.error)}")
    try:
        run2.env[T].backward()
    except Exception as e:  # noqa: BLE001
        return Mismatch("backward_raised_equiv", fmt_exc(e))
    mm = _invariant(run2, "(L*g).sum().backward()")
    if mm is not None:
        return mm
    g2 = _grads(run2)
    for h, a in g1.items():
        b_ = g2[h]
        if (a is None) != (b_ is None):
            return Mismatch("seed_equiv_presence", f"h{h}: grad None-ness differs between L.backward(g) and (L*g).sum().backward()")
        if a is None:
            continue
        a64, b64 = a.astype(np.float64), b_.astype(np.float64)
        with np.errstate(all="ignore"):
            scale = max(1.0, float(np.nanmax(np.abs(b64))) if b64.size else 1.0)
        if not np.allclose(a64, b64, rtol=16 * lowest, atol=16 * lowest * scale, equal_nan=True):
            return Mismatch("seed_equiv_value", f"h{h}: L.backward(g) gives {a.ravel()[:5].tolist()} but the explicit reduction gives {b_.ravel()[:5].tolist()}")
    return None


N = {"quick": 400, "thorough": 3000}


def shard_plan(tier):
    return [f"s{i}" for i in range(13)] + [f"layers{i}" for i in range(3)]


def layer_meta_case(case, rec):
    """nnet-layer outputs as terminals (arbitrary g): the stored gradients' type/shape/dtype (and values, via C02's
    oracle) - 'including ... outputs of the nnet layers'."""
    from vf.checks import c02

    mm = _layer_grad_meta(case)
    if mm is not None:
        return mm
    return c02.check_case(case, rec)


def _layer_grad_meta(case):
    """every gradient the layer's backward pass stored is an ndarray of the tensor's own shape and dtype (the layers
    write some parameter gradients themselves, so nothing downstream re-casts them)"""
    import mygrad as mg

    reset_mygrad()
    run = ir.MgRun(case["prog"]).run()
    if run.error is not None:
        return None  # (reported by the value oracle)
    L = run.env[case["L"]]
    try:
        if case.get("seed") is None:
            L.backward()
        else:
            L.backward(ir.decode_seed(mg, case["seed"]))
    except Exception:  # noqa: BLE001
        return None
    for h, t in run.env.items():
        if not isinstance(t, mg.Tensor) or t.grad is None:
            continue
        g = t.grad
        if not isinstance(g, np.ndarray) or g.shape != t.shape or g.dtype != t.dtype:
            return Mismatch("grad_meta", f"[{case.get('op')}] h{h}: grad is {type(g).__name__} shape {getattr(g, 'shape', None)} dtype "
                                         f"{getattr(g, 'dtype', None)}; tensor {t.shape} {t.dtype}", h=h, op=case.get("op"))
    return None


def run_shard(shard, seed, tier):
    rec = Recorder()
    if shard.startswith("layers"):
        from vf.checks import c02_layers

        viol = drive(prop=PROPERTY, name="layer_vjp", strategy=c02_layers.layer_cases(),
                     check_case=lambda c: layer_meta_case(c, rec), rec=rec, seed=seed, max_examples=c02_layers.N[tier])
    else:
        viol = drive(prop=PROPERTY, name="seeding", strategy=cases(), check_case=lambda c: check_case(c, rec), rec=rec,
                     seed=seed, max_examples=N[tier])
    out = rec.result()
    out["violations"] = viol
    return out


def replay(check, case):
    if check == "layer_vjp":
        return layer_meta_case(case, None)
    return check_case(case)
