"""C01 — backward() yields the exact total derivative of the recorded computation."""

from __future__ import annotations

import numpy as np
from hypothesis import strategies as st

from vf import ir
from vf.common import Mismatch, Recorder, drive, fmt_exc, reset_mygrad
from vf.gen import COMMUTATIVE, functional_program

PROPERTY = "C01"
RULE = (
    "State-aware generator builds DAG programs (1-4 leaves: non-constant/constant tensors, ndarrays, "
    "python float/int scalars, int arrays; broadcast-compatible shapes incl. 0-d, size-1 axes, F-order; "
    "1-12 statements over ~100 op spellings incl. operators, reductions with axis/keepdims/ddof, views, "
    "basic/advanced/boolean indexing, einsum/matmul, joins, nnet activations; operands drawn from all "
    "existing handles so fan-out, x∘x, diamonds and broadcasting inside compositions are common). "
    "Oracle (a): for every tensor (leaf and intermediate) grad == complex-step derivative of sum(L) "
    "through a NumPy reference interpreter (views: the view of the owner's expected gradient; tensors L "
    "does not depend on and constants: None). Oracle (b): a random topological re-ordering of "
    "independent statements with commutative operands swapped yields the same values and gradients. "
    "Non-trivial = >=3 op statements upstream of L, a non-constant leaf reaching L, and fan-out (a handle "
    "used >=2 times upstream of L) or an op with differing operand shapes; distinct by hash of "
    "(statement ops/args/params, shapes, L)."
)
ASSUMPTIONS = [
    "NumPy kernels are the forward reference; derivatives via complex-step (h=1e-30) through complex-safe "
    "re-definitions of the non-analytic kernels (abs, max/min, var, cbrt, arctan2, logaddexp, norm)",
    "cases sitting within 1e-7 of a kink (ties, |x|=0) are only checked for None-ness/shape/dtype",
]


@st.composite
def cases(draw, tier="quick"):
    b = draw(functional_program(max_ops=12 if tier == "quick" else 18, min_ops=3, allow_const_view=False))
    r = b.ref
    tens = [h for h in r.env if r.is_tensor[h] and not r.isint[h]]
    nonconst = [h for h in tens if not r.const[h]]
    pool = nonconst if nonconst and draw(st.integers(0, 9)) > 0 else tens
    # bias towards handles with a deep upstream graph (any handle remains possible)
    if draw(st.integers(0, 4)) == 0:
        L = pool[draw(st.integers(0, len(pool) - 1))]
    else:
        ranked = sorted(pool, key=lambda h: -len(ancestors(b.prog, h)[0]))
        L = ranked[draw(st.integers(0, min(2, len(ranked) - 1)))]
    n = len(b.stmts)
    perm = draw(st.lists(st.integers(0, 1000), min_size=n, max_size=n))
    swap = draw(st.lists(st.booleans(), min_size=n, max_size=n))
    return {"prog": b.prog, "L": L, "perm": perm, "swap": swap}


def ancestors(prog, L):
    by_h = {s["h"]: s for s in prog["stmts"] if "h" in s}
    seen = set()
    stack = [L]
    while stack:
        h = stack.pop()
        if h in seen:
            continue
        seen.add(h)
        s = by_h[h]
        if s["k"] == "op":
            stack.extend(s["args"])
    return seen, by_h


def classify(case, ref):
    prog, L = case["prog"], case["L"]
    anc, by_h = ancestors(prog, L)
    ops = [by_h[h] for h in anc if by_h[h]["k"] == "op"]
    uses = {}
    bcast = False
    for s in ops:
        for a in s["args"]:
            uses[a] = uses.get(a, 0) + 1
        shapes = {tuple(ref.env[a].shape) for a in s["args"]}
        if len(shapes) > 1:
            bcast = True
    fanout = any(v >= 2 for v in uses.values())
    nonconst_leaf = any(by_h[h]["k"] == "leaf" and not ref.const[h] and ref.is_tensor[h] for h in anc)
    labels = []
    if fanout:
        labels.append("fanout")
    if bcast:
        labels.append("broadcast")
    if len(ops) >= 3:
        labels.append("ops>=3")
    if len(ops) >= 6:
        labels.append("ops>=6")
    if any(h not in anc and ref.is_tensor[h] for h in ref.env):
        labels.append("has_unrelated_tensor")
    nontrivial = len(ops) >= 3 and nonconst_leaf and (fanout or bcast)
    return nontrivial, labels


def reorder(case):
    """Random topological re-ordering with commutative operands swapped (same handles)."""
    stmts = case["prog"]["stmts"]
    n = len(stmts)
    keys = case["perm"]
    done = set()
    remaining = list(range(n))
    out = []
    while remaining:
        ready = [i for i in remaining if all(a in done for a in stmts[i].get("args", []))]
        i = min(ready, key=lambda i: (keys[i], i))
        remaining.remove(i)
        s = dict(stmts[i])
        if s["k"] == "op" and s["op"] in COMMUTATIVE and case["swap"][i] and len(s["args"]) >= 2:
            s["args"] = list(reversed(s["args"]))
        out.append(s)
        if "h" in s:
            done.add(s["h"])
    return {"stmts": out}


def _grad_invariant(mgrun):
    mg = mgrun.mg
    for h, t in mgrun.env.items():
        if isinstance(t, mg.Tensor):
            g = t.grad
            if g is not None and (type(g) is not np.ndarray or g.shape != t.shape or g.dtype != t.dtype):
                return Mismatch("grad_meta", f"h{h}: grad {type(g).__name__} {getattr(g,'shape',None)} {getattr(g,'dtype',None)} "
                                             f"vs tensor {t.shape} {t.dtype}", h=h)
    return None


def check_case(case, rec=None):
    prog, L = case["prog"], case["L"]
    reset_mygrad()
    run = ir.MgRun(prog).run()
    if run.error is not None:
        return Mismatch("raised", f"stmt {run.error_idx}: {fmt_exc(run.error)}")
    exp = ir.expected_after_backward(prog, L)
    if rec is not None:
        nontrivial, labels = classify(case, exp.ref)
        if exp.kinks:
            labels.append("kink")
        rec.note([_skeleton(prog), L], nontrivial, labels, sample={"L": L, "stmts": prog["stmts"]})
        rec.extra["complex_ref_runs"] = rec.extra.get("complex_ref_runs", 0) + exp.ncomplex
    try:
        run.env[L].backward()
    except Exception as e:  # noqa: BLE001
        return Mismatch("backward_raised", fmt_exc(e))
    mm = ir.compare_grads(exp, run) or _grad_invariant(run)
    if mm is not None:
        return mm
    # (b) order independence
    prog2 = reorder(case)
    reset_mygrad()
    run2 = ir.MgRun(prog2).run()
    if run2.error is not None:
        return Mismatch("raised_reordered", f"stmt {run2.error_idx}: {fmt_exc(run2.error)}")
    try:
        run2.env[L].backward()
    except Exception as e:  # noqa: BLE001
        return Mismatch("backward_raised_reordered", fmt_exc(e))
    mg = run.mg
    rtol, atol = ir.grad_tol(exp)
    for h, t in run.env.items():
        if not isinstance(t, mg.Tensor):
            continue
        t2 = run2.env[h]
        if not np.allclose(t.data, t2.data, rtol=1e-12, atol=1e-12 * (1 + exp.vmax), equal_nan=True):
            return Mismatch("reorder_value", f"h{h}: forward value depends on statement/operand order", h=h)
        g1, g2 = t.grad, t2.grad
        if (g1 is None) != (g2 is None):
            return Mismatch("reorder_grad_presence", f"h{h}: grad None-ness depends on order", h=h)
        if g1 is not None and not exp.kinks and not np.allclose(g1, g2, rtol=rtol, atol=atol):
            return Mismatch("reorder_grad", f"h{h}: gradient depends on statement/operand order", h=h)
    return None


def _skeleton(prog):
    out = []
    for s in prog["stmts"]:
        if s["k"] == "leaf":
            out.append(["leaf", s["kind"], s["shape"]])
        else:
            out.append([s["op"], s["args"], s.get("p"), s.get("constant")])
    return out


N = {"quick": 1000, "thorough": 6000}


def shard_plan(tier):
    return [f"s{i}" for i in range(16)]


def run_shard(shard, seed, tier):
    rec = Recorder()
    viol = drive(prop=PROPERTY, name="dag", strategy=cases(tier), check_case=lambda c: check_case(c, rec), rec=rec,
                 seed=seed, max_examples=N[tier])
    out = rec.result()
    out["violations"] = viol
    return out


def replay(check, case):
    return check_case(case)
