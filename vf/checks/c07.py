"""C07 — backward() releases the whole graph and gradients never go stale."""

from __future__ import annotations

import gc

import numpy as np
from hypothesis import strategies as st

from vf import ir
from vf.common import Mismatch, Recorder, drive, fmt_exc, reset_mygrad
from vf.gen import functional_program, history_program
from vf.checks.c01 import _skeleton, ancestors
from vf.checks.c04 import skeleton as hskeleton

PROPERTY = "C07"
RULE = (
    "Two generated families. 'release': a C05-style history (views, reads, in-place updates incl. where=/out=) "
    "with a weighted terminal L; L.backward(); then the harness drops every handle except the leaves and a drawn "
    "subset of intermediates and performs 1-4 drawn follow-up actions on kept tensors (view-only op, non-view op, "
    "in-place update - also through a kept former view -, second backward through a fresh graph, null_grad). 'iterate': a functional DAG re-executed "
    "2-4 times on the same leaf tensors with backward each time. Oracles (cyclic GC disabled for the whole case): "
    "(a) every tensor reachable from L through creator->inputs before backward (incl. internal placeholders) has "
    "no creator and no recorded consumers afterwards; (b) census: live mygrad Tensor/Operation instances minus "
    "the pre-case baseline == exactly the tensors the harness still references and 0 operations; (c) a kept "
    "leaf's .grad is bit-unchanged until its next use, survives a view-only op, reads None (as do its views) "
    "after a non-view op / in-place update / null_grad, and after a second backward equals the fresh gradient, "
    "not an accumulation, and kept views of it then read None or the corresponding view of the fresh gradient; a leaf "
    "that was neither used nor mutated keeps its gradient; (d) repeating the identical step gives bit-identical gradients. Non-trivial = history "
    "with an in-place update before backward, or >=2 iterations, or a kept intermediate that is a view; distinct "
    "by skeleton + actions."
)
ASSUMPTIONS = ["CPython reference counting; gc.get_objects() census is relative to a per-case baseline"]


def census(mg):
    from mygrad.operation_base import Operation

    nt = no = 0
    ids = set()
    for o in gc.get_objects():
        tp = type(o)  # (not isinstance: it dereferences weakref proxies, which may be dead)
        if issubclass(tp, mg.Tensor):
            nt += 1
            ids.add(id(o))
        elif issubclass(tp, Operation):
            no += 1
    return nt, no, ids


def _corresponding_view(xd, td, g):
    """the region of g that corresponds to where td sits inside xd (same offset/strides), when xd and g are both
    C-contiguous arrays of one dtype and td lies inside xd's buffer; else None (no value comparison)"""
    if not (xd.flags.c_contiguous and g.flags.c_contiguous and xd.shape == g.shape and xd.dtype == g.dtype and xd.size):
        return None
    off = td.__array_interface__["data"][0] - xd.__array_interface__["data"][0]
    lo = off + sum(min(0, st_) * (n - 1) for st_, n in zip(td.strides, td.shape))
    hi = off + sum(max(0, st_) * (n - 1) for st_, n in zip(td.strides, td.shape)) + td.itemsize
    if lo < 0 or hi > xd.nbytes or td.dtype != xd.dtype:
        return None
    flat = g.reshape(-1)
    return np.lib.stride_tricks.as_strided(flat[off // g.itemsize:], shape=td.shape, strides=td.strides) if lo >= off else None


@st.composite
def cases(draw):
    mode = draw(st.sampled_from(["release", "release", "iterate"]))
    if mode == "iterate":
        b = draw(functional_program(max_ops=8, min_ops=2, allow_const_view=False, allow_int=False))
        r = b.ref
        pool = [h for h in r.env if r.is_tensor[h] and not r.const[h]] or [h for h in r.env if r.is_tensor[h]]
        ranked = sorted(pool, key=lambda h: -len(ancestors(b.prog, h)[0]))
        L = ranked[draw(st.integers(0, min(2, len(ranked) - 1)))]
        return {"mode": mode, "prog": b.prog, "L": L, "iters": draw(st.integers(2, 4))}
    b = draw(history_program(max_steps=10, max_elems=12, with_fail=draw(st.booleans())))
    r = b.ref
    live = [h for h in r.env if r.is_tensor[h] and not r.isint[h] and r.env[h].size > 0]
    nonconst = [h for h in live if not r.const[h]]
    pool = nonconst or live
    terms = []
    for _ in range(draw(st.integers(1, 2))):
        h = b.pick(pool)
        w = b.leaf("array", list(b.shape(h)), lo=-20, hi=20)
        m = b.op("multiply", [h, w])
        s = b.op("sum", [m]) if m is not None else None
        if s is not None:
            terms.append(s)
    L = terms[0] if len(terms) == 1 else (b.op("add_sequence", terms) if terms else None)
    if L is None:
        L = terms[0] if terms else pool[-1]
    tens = [h for h in r.env if r.is_tensor[h]]
    keep_extra = [h for h in tens if draw(st.integers(0, 3)) == 0]
    actions = draw(st.lists(st.sampled_from(["view", "use", "use", "use", "inplace", "inplace_via_view", "shape_assign",
                                             "backward2", "backward2", "null_grad", "read_grad", "inplace_kept_view", "chain_on_kept",
                                             "chain_on_kept"]),
                            min_size=1, max_size=4))
    picks = draw(st.lists(st.integers(0, 50), min_size=len(actions), max_size=len(actions)))
    return {"mode": mode, "prog": b.prog, "L": L, "keep": keep_extra, "actions": actions, "picks": picks}


def _upstream(mg, t):
    seen = {}
    stack = [t]
    while stack:
        x = stack.pop()
        if id(x) in seen:
            continue
        seen[id(x)] = x
        if x.creator is not None:
            stack.extend(x.creator.variables)
    return list(seen.values())


def check_release(case, rec):
    import mygrad as mg
    import mygrad.errors  # noqa: F401

    prog, L = case["prog"], case["L"]
    reset_mygrad()
    gc.collect()
    gc.disable()
    try:
        base_t, base_o, base_ids = census(mg)
        run = ir.MgRun(prog).run()
        if run.error is not None:
            return Mismatch("raised", f"stmt {run.error_idx}: {fmt_exc(run.error)}")
        Lt = run.env[L]
        ups = _upstream(mg, Lt)
        try:
            Lt.backward()
        except Exception as e:  # noqa: BLE001
            return Mismatch("backward_raised", fmt_exc(e))
        # (a)
        for x in ups:
            if x.creator is not None:
                return Mismatch("creator_not_cleared", f"a tensor upstream of L (shape {x.shape}) still has a creator after L.backward()")
            if len(x._ops) != 0:
                return Mismatch("consumers_not_cleared", f"a tensor upstream of L (shape {x.shape}) still records {len(x._ops)} consumer(s)")
        del ups, x, Lt
        # drop everything except leaves and the drawn subset
        leaves = {s["h"] for s in prog["stmts"] if s["k"] == "leaf"}
        keep = set(case["keep"]) | leaves
        for h in list(run.env):
            if h not in keep:
                del run.env[h]
        kept = {id(t): t for t in run.env.values() if isinstance(t, mg.Tensor)}
        # what the harness legitimately keeps alive: the kept tensors plus whatever their own (uncleared,
        # because not upstream of L) graphs reference through creator -> inputs
        closure_t, closure_o = {}, set()
        stack = list(kept.values())
        while stack:
            x = stack.pop()
            if id(x) in closure_t:
                continue
            closure_t[id(x)] = x
            if x.creator is not None:
                closure_o.add(id(x.creator))
                stack.extend(x.creator.variables)
                # an UnView node replays view functions that are bound to internal placeholder tensors
                for fn in getattr(x.creator, "_view_fn_seq", ()) or ():
                    owner = getattr(getattr(fn, "__wrapped__", None), "__self__", None)
                    if isinstance(owner, mg.Tensor):
                        stack.append(owner)
            if x._base is not None:
                stack.append(x._base)
        n_expected_t, n_expected_o = len(closure_t), len(closure_o)
        del closure_t, stack, x
        nt, no, ids = census(mg)
        if no - base_o != n_expected_o:
            return Mismatch("operation_leaked", f"{no - base_o} Operation instance(s) alive after backward() and dropping the "
                                                f"results; the tensors the harness holds reference {n_expected_o}")
        if nt - base_t != n_expected_t:
            return Mismatch("tensor_leaked", f"{nt - base_t} Tensor instances alive beyond the baseline; the harness holds "
                                             f"{len(kept)} (closure {n_expected_t})")
        del ids
        # (c) follow-up actions on kept non-constant leaves
        cands = [h for h in sorted(run.env) if h in leaves and isinstance(run.env[h], mg.Tensor) and not run.env[h].constant
                 and run.env[h].dtype.kind == "f" and run.env[h].size > 0]
        refrun = None
        for act, pk in zip(case["actions"], case["picks"]):
            if not cands:
                break
            h = cands[pk % len(cands)]
            x = run.env[h]
            g0 = x.grad
            g0b = None if g0 is None else (g0.tobytes(), g0.shape, str(g0.dtype))
            if act == "read_grad":
                g1 = x.grad
                if (g1 is None) != (g0 is None) or (g1 is not None and g1.tobytes() != g0b[0]):
                    return Mismatch("grad_changed_on_read", f"h{h}.grad changed between two reads")
            elif act == "view":
                v = x[...]
                g1 = x.grad
                if g0b is not None and (g1 is None or (g1.tobytes(), g1.shape, str(g1.dtype)) != g0b):
                    return Mismatch("grad_lost_on_view_op", f"h{h}.grad did not persist across a view-only operation")
                if g0b is not None and x.base is None:
                    gv = v.grad
                    if gv is None or not np.array_equal(gv, g1, equal_nan=True):
                        return Mismatch("view_grad_missing", f"a fresh view of h{h} does not report the view of h{h}.grad")
                del v
            elif act == "use":
                # any operation on x: if the result shares memory with x it was view-only (gradient persists),
                # otherwise x entered a non-view operation and its old gradient (and its views') must be gone
                views = [t for t in run.env.values() if isinstance(t, mg.Tensor) and t.base is x]
                uses = ["mul", "flatten", "reshape_flat", "ravel", "einsum_id", "einsum_opt", "transpose", "sum"]
                if x.ndim >= 1:
                    uses += ["advidx", "boolidx", "slice_rev"]
                if x.ndim >= 2:
                    uses += ["mixedidx", "mixedidx"]
                u = uses[(pk // 7) % len(uses)]
                try:
                    if u == "mul":
                        y = x * 2.0
                    elif u == "flatten":
                        y = x.flatten()
                    elif u == "reshape_flat":
                        y = x.reshape(-1)
                    elif u == "ravel":
                        y = mg.ravel(x)
                    elif u == "einsum_id":
                        y = mg.einsum("...->...", x)
                    elif u == "einsum_opt":
                        y = mg.einsum("...->...", x, optimize=True)
                    elif u == "transpose":
                        y = mg.transpose(x)
                    elif u == "sum":
                        y = x.sum()
                    elif u == "advidx":
                        y = x[[0]]
                    elif u == "boolidx":
                        y = x[np.ones(x.shape, dtype=bool)]
                    elif u == "slice_rev":
                        y = x[::-1]
                    elif u == "mixedidx":
                        y = x[:, [0]]
                    else:
                        y = mg.transpose(x).reshape(-1)
                except Exception as e:  # noqa: BLE001
                    return Mismatch("use_raised", f"{u} on kept leaf h{h}: {fmt_exc(e)}")
                shares = y.size > 0 and np.shares_memory(y.data, x.data)
                g1 = x.grad
                if shares:
                    if g0b is not None and (g1 is None or (g1.tobytes(), g1.shape, str(g1.dtype)) != g0b):
                        return Mismatch("grad_lost_on_view_op", f"h{h}.grad did not persist across the view-only operation {u}")
                elif y.size > 0 or u in ("mul", "flatten", "sum"):
                    if g1 is not None:
                        return Mismatch("stale_grad_after_use", f"h{h}.grad is still set after h{h} entered the non-view operation {u}")
                    for t in views:
                        if t.grad is not None and t.creator is not None:
                            return Mismatch("stale_view_grad_after_use", f"a view of h{h} still reports a gradient after h{h} entered the non-view operation {u}")
                del y, views
            elif act == "inplace":
                try:
                    x[...] = 0.5
                except Exception as e:  # noqa: BLE001
                    return Mismatch("inplace_after_backward_raised", f"h{h}[...] = 0.5 after backward: {fmt_exc(e)}")
                if x.grad is not None:
                    return Mismatch("stale_grad_after_inplace", f"h{h}.grad is still set after an in-place update of h{h}")
            elif act == "inplace_via_view":
                v = x[...]
                try:
                    v *= 2.0
                except Exception as e:  # noqa: BLE001
                    return Mismatch("inplace_after_backward_raised", f"v = h{h}[...]; v *= 2 after backward: {fmt_exc(e)}")
                if x.grad is not None or v.grad is not None:
                    return Mismatch("stale_grad_after_inplace", f"h{h}.grad is still set after an in-place update through a view of h{h}")
                del v
            elif act == "chain_on_kept":
                # a new graph epoch built on a tensor the caller kept (a leaf, or a view that the first backward
                # disconnected and that now acts as a base of its own): a fresh view of it takes part in a loss;
                # the view's gradient must be there, be the loss's gradient, and be a view of its base's gradient
                # (not views whose elements overlap in memory - broadcast_to: there "the view of the base's gradient" is
                #  not the loss's gradient with respect to the view's elements)
                pool2 = [t for t in run.env.values() if isinstance(t, mg.Tensor) and not t.constant and t.dtype.kind == "f"
                         and t.ndim >= 1 and t.size > 0 and not any(st_ == 0 and n > 1 for st_, n in zip(t.data.strides, t.shape))]
                if not pool2:
                    continue
                t = pool2[(pk // 3) % len(pool2)]
                w = t[::-1]
                z = w.reshape(-1) if (pk % 2 and w.data.flags.c_contiguous) else w[...]
                cw = np.arange(z.size, dtype=np.float64).reshape(z.shape) + 0.5
                L2 = (z * cw).sum()
                try:
                    L2.backward()
                except mg.errors.InvalidBackprop:
                    # refused (the kept tensor's own graph was partially cleared).  The refusal happens part-way
                    # through the pass and MyGrad's advice is to clear every graph and start over: what later
                    # statements do in that state is not part of any property, so the follow-up sequence ends here
                    del L2, z, w, t, pool2
                    break
                for nm, vt, want in (("z", z, cw), ("w", w, cw.reshape(w.shape)), ("t", t, cw.reshape(w.shape)[::-1])):
                    gv = vt.grad
                    if gv is None:
                        return Mismatch("view_grad_missing_in_new_epoch", f"new epoch on a kept tensor: {nm}.grad is None after backward "
                                                                          f"(t = kept tensor, w = t[::-1], z = view of w)")
                    if gv.shape != vt.shape or not np.array_equal(gv, want.astype(vt.dtype)):
                        return Mismatch("view_grad_wrong_in_new_epoch", f"new epoch on a kept tensor: {nm}.grad = {gv.ravel()[:4].tolist()}, "
                                                                        f"expected {want.ravel()[:4].tolist()}")
                    bb = vt.base
                    if bb is not None and bb.grad is not None and not np.shares_memory(gv, bb.grad):
                        return Mismatch("view_grad_not_view_of_base_grad", f"new epoch on a kept tensor: {nm}.grad does not share memory with "
                                                                           f"{nm}.base.grad")
                del L2, z, w, t, pool2, gv, vt, bb
            elif act == "inplace_kept_view":
                # in-place update of a tensor the caller kept that is (or was, before backward released the view
                # bookkeeping) a view of x: either the write reaches x's memory - then x was mutated and its gradient
                # must be gone - or it does not, and then x was neither used nor mutated: its gradient persists
                if refrun is None:
                    refrun = ir.RefRun(prog).run()
                # (views NumPy itself makes read-only, e.g. broadcast_to, are no in-place targets)
                views = [t for hh, t in run.env.items() if isinstance(t, mg.Tensor) and t is not x and t.base is x
                         and not t.constant and t.size > 0 and refrun.env[hh].flags.writeable]
                if not views:
                    del views
                    continue
                v = views[(pk // 7) % len(views)]
                d0 = x.data.tobytes()
                try:
                    if pk % 2:
                        v *= 3.0
                    else:
                        v[...] = 0.25
                except Exception as e:  # noqa: BLE001
                    return Mismatch("inplace_after_backward_raised", f"in-place update of a kept view of h{h} after backward: {fmt_exc(e)}")
                reached = np.shares_memory(v.data, x.data) or x.data.tobytes() != d0
                g1 = x.grad
                if reached and g1 is not None:
                    return Mismatch("stale_grad_after_inplace", f"h{h}.grad is still set after an in-place update through a kept view of h{h}")
                if not reached and g0b is not None and (g1 is None or (g1.tobytes(), g1.shape, str(g1.dtype)) != g0b):
                    return Mismatch("grad_lost_without_use", f"h{h} was neither used nor mutated (a former view of it was updated "
                                                             f"in place and now owns its memory) but h{h}.grad changed")
                del v, views
            elif act == "shape_assign":
                if not x.data.flags.c_contiguous:
                    continue
                try:
                    x.shape = (1,) + x.shape if (pk % 2) else (x.size,)
                except Exception as e:  # noqa: BLE001
                    return Mismatch("inplace_after_backward_raised", f"h{h}.shape = ... after backward: {fmt_exc(e)}")
                g1 = x.grad
                if g1 is not None and g1.shape != x.shape:
                    return Mismatch("stale_grad_after_inplace", f"h{h}.grad has shape {g1.shape} after h{h}.shape was assigned {x.shape}")
            elif act == "null_grad":
                x.null_grad()
                if x.grad is not None:
                    return Mismatch("null_grad_ineffective", f"h{h}.grad set after null_grad()")
            elif act == "backward2":
                w = np.arange(x.size, dtype=np.float64).reshape(x.shape) + 0.5
                had_history = x.creator is not None
                L2 = (x * w).sum()
                try:
                    L2.backward()
                except Exception as e:  # noqa: BLE001
                    if not isinstance(e, mg.errors.InvalidBackprop) and not had_history:
                        return Mismatch("second_backward_raised", f"(h{h} * w).sum().backward() on a leaf without history: {fmt_exc(e)[:160]}")
                    # (with an uncleared in-place history that shares tensors with the graph the first backward cleared,
                    #  the pass is refused; which exception type that takes is C09's subject, not this property's)
                    # x still carries an (uncleared) in-place history that shares tensors with the graph cleared
                    # by the first backward: refusing loudly is allowed (C09); nothing to compare
                    rec_label = "backward2_refused"
                    del L2, x
                    break  # (see chain_on_kept: nothing is asserted after a refused backward)
                g1 = x.grad
                if x.base is None and x.creator is None:
                    if g1 is None or not np.array_equal(g1, w.astype(x.dtype)):
                        return Mismatch("second_backward_wrong", f"h{h}.grad after a second backward is not the fresh gradient "
                                                                 f"(accumulated or stale): {None if g1 is None else g1.ravel()[:4].tolist()}")
                    # tensors the caller kept that are views of x: None until recomputed, or the corresponding view of
                    # the *fresh* gradient - never the gradient of the earlier pass
                    t = gv = None
                    for t in [t_ for t_ in run.env.values() if isinstance(t_, mg.Tensor) and t_ is not x and t_.base is x and t_.size > 0]:
                        try:
                            gv = t.grad
                        except Exception as e:  # noqa: BLE001
                            return Mismatch("view_grad_shape", f"after a second backward through h{h}, reading the gradient of a kept "
                                                               f"view of h{h} (shape {t.shape}) raised {fmt_exc(e)[:120]}")
                        if gv is None:
                            continue
                        if not np.shares_memory(gv, g1):
                            return Mismatch("stale_view_grad", f"after a second backward through h{h}, a kept view of h{h} reports a gradient "
                                                               f"that is not a view of h{h}.grad: {gv.ravel()[:4].tolist()}")
                        if gv.shape != t.shape:
                            return Mismatch("view_grad_shape", f"after a second backward through h{h}, a kept view of h{h} of shape "
                                                               f"{t.shape} reports a gradient of shape {gv.shape}")
                        exp_v = _corresponding_view(x.data, t.data, g1)
                        if exp_v is not None and (gv.shape != exp_v.shape or not np.array_equal(gv, exp_v)):
                            return Mismatch("stale_view_grad", f"after a second backward through h{h}, a kept view of h{h} reports "
                                                               f"{gv.ravel()[:4].tolist()}, the corresponding view of h{h}.grad is {exp_v.ravel()[:4].tolist()}")
                    del t, gv
                del L2
            del x
        return None
    finally:
        gc.enable()


def check_iterate(case, rec):
    import mygrad as mg

    prog, L = case["prog"], case["L"]
    reset_mygrad()
    gc.collect()
    gc.disable()
    try:
        leaves_stmts = [s for s in prog["stmts"] if s["k"] == "leaf"]
        run0 = ir.MgRun({"stmts": leaves_stmts}).run()
        if L in run0.env:
            return None
        leaf_env = dict(run0.env)
        base_t, base_o, _ = census(mg)
        first = None
        for it in range(case["iters"]):
            run = ir.MgRun(prog)
            run.env.update(leaf_env)
            for idx, s in enumerate(prog["stmts"]):
                if s["k"] == "leaf":
                    continue
                try:
                    run.exec(idx, s)
                except Exception as e:  # noqa: BLE001
                    return Mismatch("raised", f"iteration {it} stmt {idx}: {fmt_exc(e)}")
            try:
                run.env[L].backward()
            except Exception as e:  # noqa: BLE001
                return Mismatch("backward_raised", f"iteration {it}: {fmt_exc(e)}")
            grads = {h: (None if t.grad is None else t.grad.tobytes()) for h, t in leaf_env.items() if isinstance(t, mg.Tensor)}
            if first is None:
                first = grads
            elif grads != first:
                bad = [h for h in grads if grads[h] != first[h]]
                return Mismatch("iteration_grads_differ", f"iteration {it}: gradients of leaves {bad} differ bit-wise from iteration 0")
            del run
            nt, no, _ = census(mg)
            if no - base_o != 0:
                return Mismatch("operation_leaked", f"iteration {it}: {no - base_o} Operation instance(s) alive after backward and dropping the results")
            if nt - base_t != 0:
                return Mismatch("tensor_leaked", f"iteration {it}: {nt - base_t} Tensor instance(s) alive beyond the leaves")
        return None
    finally:
        gc.enable()


def check_case(case, rec=None):
    if rec is not None:
        prog = case["prog"]
        labels = ["mode_" + case["mode"]]
        if case["mode"] == "release":
            nmut = sum(1 for s in prog["stmts"] if s["k"] == "inplace")
            if nmut:
                labels.append("inplace_before_backward")
            labels += ["act_" + a for a in set(case["actions"])]
            kept_view = any(s.get("h") in case["keep"] and s["k"] == "op" and ir.OPS[s["op"]].view for s in prog["stmts"])
            if kept_view:
                labels.append("kept_view_intermediate")
            rec.note([hskeleton(prog), case["L"], case["keep"], case["actions"]], bool(nmut) or kept_view, labels,
                     sample={k: case[k] for k in ("mode", "L", "keep", "actions")} | {"stmts": prog["stmts"]})
        else:
            rec.note([_skeleton(prog), case["L"], case["iters"]], True, labels + [f"iters={case['iters']}"],
                     sample={"mode": "iterate", "L": case["L"], "iters": case["iters"], "stmts": prog["stmts"]})
    return check_release(case, rec) if case["mode"] == "release" else check_iterate(case, rec)


N = {"quick": 800, "thorough": 4800}


def shard_plan(tier):
    return [f"s{i}" for i in range(16)]


def run_shard(shard, seed, tier):
    rec = Recorder()
    viol = drive(prop=PROPERTY, name="release", strategy=cases(), check_case=lambda c: check_case(c, rec), rec=rec,
                 seed=seed, max_examples=N[tier])
    out = rec.result()
    out["violations"] = viol
    return out


def replay(check, case):
    return check_case(case)
