"""C12 — operations never modify their inputs, and gradients are never aliased."""

from __future__ import annotations

import numpy as np
from hypothesis import strategies as st

from vf import ir, ref as R
from vf.common import Mismatch, Recorder, drive, fmt_exc, reset_mygrad
from vf.checks import c01, c02, c02_layers

PROPERTY = "C12"
RULE = (
    "Cases come from three generators: every one-operation program of C02 (all ops, options, operand kinds and "
    "layouts), the one-layer programs (conv/pool/batchnorm/gru/losses) and the C01 DAG programs; operands include "
    "caller-owned ndarrays, index objects (lists, integer/bool arrays) and a caller-owned seed gradient (array in "
    "C/F order, matching or other dtype, scalar, or none). Oracle: byte checksums and writeable flags of every "
    "caller-owned array, index object and the seed before vs after the forward pass and after backward(); data of "
    "every tensor unchanged by backward(); after backward for all pairs shares_memory(grad_i, grad_j) implies "
    "shares_memory(data_i, data_j); then each .grad is overwritten in place with a sentinel and no tensor's data and "
    "no non-aliasing tensor's grad may change, and the caller's seed may change only if it is that tensor's gradient "
    "object; a copy of any tensor (Tensor.copy / copy.copy) shares neither data nor gradient memory with anything. Non-trivial = >=1 caller-owned ndarray / index object / array seed in the case; distinct by program skeleton."
)
ASSUMPTIONS = ["index objects are observed by wrapping the harness' own index decoder (the very objects handed to MyGrad)"]


@st.composite
def edge_cases(draw):
    """two small shapes of program in which a backward rule is tempted to hand on, or to write into, the incoming
    gradient itself: a view tensor that feeds several operand slots of the terminal op, and a reduction over an axis
    of length 1 (a single candidate for max/min, zero variance for var/std)"""
    from vf import gen
    from vf.gen import Builder, draw_shape

    b = Builder(draw, max_elems=24, allow_int=False)
    b.allow_const_flag = False
    b.recency_bias = False
    shape = draw_shape(draw, max_ndim=3, max_side=3, cap=18, min_side=1) or [2]
    kind = draw(st.sampled_from(["view_fanout", "view_fanout", "unit_axis_reduce"]))
    h = None
    if kind == "view_fanout":
        b.leaf("var", shape)
        v = gen.step_view(b)
        if v is None:
            v = b.op("getitem", [0], {"index": {"t": True, "c": [["e"]]}})
        how = draw(st.sampled_from(["add_self", "add_scaled", "mul_self", "sub_neg"]))
        if how == "add_self":
            h = b.op("add", [v, v])
        elif how == "add_scaled":
            m = b.op("multiply", [v, b.scalar_leaf(2)])
            h = b.op("add", [v, m]) if m is not None else None
        elif how == "mul_self":
            h = b.op("multiply", [v, v])
        else:
            n = b.op("negative", [v])
            h = b.op("subtract", [v, n]) if n is not None else None
        name = "(view fan-out)"
    else:
        ax = draw(st.integers(0, len(shape)))
        x = b.leaf("var", shape[:ax] + [1] + shape[ax:])
        name = draw(st.sampled_from(["std", "var", "max", "min", "sum", "mean", "prod"]))
        p = {"axis": ax, "keepdims": draw(st.booleans())}
        if name in ("std", "var"):
            p["ddof"] = 0
        h = b.op(name, [x], p)
    if h is None:
        x = b.leaf("var", [2])
        h = b.op("add", [x, x])
        name = "(fallback)"
    shp = b.shape(h)
    n = int(np.prod(shp)) if len(shp) else 1
    vals = [k / 4.0 for k in draw(st.lists(st.integers(-12, 12), min_size=n, max_size=n))]
    return {"prog": b.prog, "L": h, "seed": {"kind": "array", "v": vals, "shape": list(shp), "dtype": "float64"}, "op": name}


@st.composite
def cases(draw):
    src = draw(st.sampled_from(["op", "op", "op", "layer", "dag", "edge"]))
    if src == "edge":
        c = draw(edge_cases())
    elif src == "op":
        c = draw(c02.cases())
    elif src == "layer":
        c = draw(c02_layers.layer_cases())
    else:
        d = draw(c01.cases())
        from vf.checks.c02 import _seed

        r = ir.RefRun(d["prog"]).run()
        c = {"prog": d["prog"], "L": d["L"], "seed": _seed(draw, list(r.env[d["L"]].shape)), "op": "(dag)"}
    c["src"] = src
    return c


def _sum(a):
    return (a.tobytes(), a.shape, str(a.dtype))


def check_case(case, rec=None):
    import mygrad as mg

    prog, L, seed = case["prog"], case["L"], case["seed"]
    reset_mygrad()
    # observe the index objects handed to MyGrad
    seen_idx = []
    orig = R.dec_index

    def spy(enc):
        out = orig(enc)
        items = out if isinstance(out, tuple) else (out,)
        for it in items:
            if isinstance(it, np.ndarray):
                seen_idx.append((it, _sum(it)))
            elif isinstance(it, list):
                seen_idx.append((it, list(it)))
        return out

    R.dec_index = spy
    try:
        run = ir.MgRun(prog)
        owned = {}
        for idx, s in enumerate(prog["stmts"]):
            try:
                run.exec(idx, s)
            except Exception as e:  # noqa: BLE001
                return Mismatch("raised", f"stmt {idx}: {fmt_exc(e)}")
            if s["k"] == "leaf" and isinstance(run.env[s["h"]], np.ndarray):
                a = run.env[s["h"]]
                owned[s["h"]] = (a, _sum(a), a.flags.writeable)
    finally:
        R.dec_index = orig
    if rec is not None:
        nidx = len(seen_idx)
        has_arr_seed = seed is not None and seed["kind"] != "scalar"
        labels = ["src_" + case["src"]]
        if owned:
            labels.append("caller_ndarray")
        if nidx:
            labels.append("index_object")
        if has_arr_seed:
            labels.append("array_seed")
        rec.note([[s.get("op"), s.get("p"), s.get("shape"), s.get("kind")] for s in prog["stmts"]] + [L, seed and seed["kind"]],
                 bool(owned) or nidx > 0 or has_arr_seed, labels, sample={"L": L, "seed": seed, "stmts": prog["stmts"]})

    def inputs_intact(when):
        for h, (a, cs, w) in owned.items():
            if _sum(a) != cs:
                return Mismatch("input_array_modified", f"{when}: caller-owned ndarray h{h} was modified")
        for it, snap in seen_idx:
            if isinstance(it, np.ndarray):
                if _sum(it) != snap:
                    return Mismatch("index_modified", f"{when}: an index array handed to MyGrad was modified")
            elif list(it) != snap:
                return Mismatch("index_modified", f"{when}: an index list handed to MyGrad was modified")
        return None

    mm = inputs_intact("after the forward pass")
    if mm is not None:
        return mm
    tens = {h: t for h, t in run.env.items() if isinstance(t, mg.Tensor)}
    data_before = {h: _sum(t.data) for h, t in tens.items()}
    Lt = run.env[L]
    seed_obj = None
    try:
        if seed is None:
            Lt.backward()
        else:
            seed_obj = ir.decode_seed(mg, seed)
            if isinstance(seed_obj, np.ndarray):
                seed_sum = _sum(seed_obj)
            Lt.backward(seed_obj)
    except Exception as e:  # noqa: BLE001
        return Mismatch("backward_raised", fmt_exc(e))
    if isinstance(seed_obj, np.ndarray) and _sum(seed_obj) != seed_sum:
        return Mismatch("seed_modified", f"backward(grad) modified the caller's gradient array (op {case.get('op')})")
    mm = inputs_intact("after backward()")
    if mm is not None:
        return mm
    for h, t in tens.items():
        if _sum(t.data) != data_before[h]:
            return Mismatch("data_modified_by_backward", f"backward() changed the data of h{h}")
    # aliasing
    hs = sorted(tens)
    grads = {h: tens[h].grad for h in hs}
    for i, h1 in enumerate(hs):
        for h2 in hs[i + 1:]:
            g1, g2 = grads[h1], grads[h2]
            if g1 is None or g2 is None or g1.size == 0 or g2.size == 0:
                continue
            if np.shares_memory(g1, g2) and not np.shares_memory(tens[h1].data, tens[h2].data):
                return Mismatch("grad_aliasing", f"gradients of h{h1} and h{h2} share memory but their data do not")
    # copies own their data and their gradient (Tensor.copy / copy.copy are "any MyGrad function" too)
    import copy as _copy

    for j, h in enumerate(hs):
        t = tens[h]
        c = t.copy() if j % 2 == 0 else _copy.copy(t)
        if _sum(t.data) != data_before[h]:
            return Mismatch("data_modified_by_copy", f"copying h{h} changed its data")
        cg = c.grad
        if t.size > 0 and np.shares_memory(c.data, t.data):
            return Mismatch("copy_aliases_data", f"h{h}.copy() shares data memory with h{h}")
        if cg is not None and cg.size > 0:
            for k in hs:
                if grads[k] is not None and grads[k].size > 0 and np.shares_memory(cg, grads[k]):
                    return Mismatch("copy_grad_aliasing", f"the gradient of h{h}.copy() shares memory with h{k}.grad")
    # sentinel writes
    for h in hs:
        g = grads[h]
        if g is None or g.size == 0 or not g.flags.writeable:
            continue
        others = {k: (None if grads[k] is None else grads[k].copy()) for k in hs if k != h}
        seed_before = _sum(seed_obj) if isinstance(seed_obj, np.ndarray) else None
        saved = g.copy()
        g[...] = 12345.678
        for k in hs:
            if _sum(tens[k].data) != data_before[k]:
                g[...] = saved
                return Mismatch("grad_aliases_data", f"writing into h{h}.grad changed the data of h{k}")
        for k, og in others.items():
            if og is None:
                continue
            if not np.array_equal(grads[k], og, equal_nan=True) and not np.shares_memory(tens[k].data, tens[h].data):
                g[...] = saved
                return Mismatch("grad_aliasing", f"writing into h{h}.grad changed h{k}.grad although the tensors share no memory")
        if seed_before is not None and _sum(seed_obj) != seed_before and not (
                g is seed_obj or np.shares_memory(tens[h].data, tens[L].data)):
            # (L.grad may be the very array the caller handed in; views of L legitimately alias it)
            g[...] = saved
            return Mismatch("grad_aliases_seed", f"writing into h{h}.grad changed the caller's seed array")
        g[...] = saved
    return None


N = {"quick": 450, "thorough": 3000}


def shard_plan(tier):
    return [f"s{i}" for i in range(16)]


def run_shard(shard, seed, tier):
    rec = Recorder()
    viol = drive(prop=PROPERTY, name="inputs_and_aliasing", strategy=cases(), check_case=lambda c: check_case(c, rec), rec=rec,
                 seed=seed, max_examples=N[tier])
    out = rec.result()
    out["violations"] = viol
    return out


def replay(check, case):
    return check_case(case)
