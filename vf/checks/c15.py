"""C15 — no_autodiff / mem-guard switches are scoped, exception-safe, value-preserving."""

from __future__ import annotations

import numpy as np
from hypothesis import strategies as st

from vf import ir
from vf.common import Mismatch, Recorder, drive, fmt_exc, reset_mygrad
from vf.gen import history_program

PROPERTY = "C15"
RULE = (
    "Random nesting trees (depth <= 6, <= 30 nodes) whose inner nodes are {no_autodiff, mem_guard_on, "
    "mem_guard_off} x {with-block, decorator, decorator with to_numpy (no_autodiff only)} - the managers are "
    "singletons, so nesting the same one is re-entrant use - plus try/except nodes; leaves are: assert the module "
    "switches, run a generated history program (views, reads, in-place updates, backward), raise an exception "
    "(caught by the nearest enclosing try node, possibly several scopes up), and at depth 0 "
    "turn_memory_guarding_on/off. The tree is executed with real with/decorator syntax by a recursive driver. "
    "Oracle: a stack model of (TRACK_GRAPH, MEM_GUARD) - after every enter / exit / exception the module switches "
    "and mem_guard_active() equal the model, and at the end they equal the process-wide default last set at depth 0. "
    "Programs run while tracking is off: values and dtypes equal the NumPy reference, every result has no creator "
    "and no base, inputs keep their .grad object and gain no consumers, no array's writeable flag changes, in-place "
    "updates keep t.data the same ndarray object, backward() writes no gradient. Non-trivial = depth >= 2 with >= 2 "
    "distinct managers, or an exception crossing >= 1 scope, or re-entrant use; distinct by tree skeleton."
)
ASSUMPTIONS = ["turn_memory_guarding_on/off are generated outside every scope (they set the default) and directly inside the body of a "
               "mem_guard_on/off scope (which must restore its entry setting whatever the body did); not inside no_autodiff "
               "or try bodies, where the property does not say which setting survives"]


class _Boom(Exception):
    pass


MANAGERS = ["na", "on", "off"]


@st.composite
def trees(draw, depth=0, budget=None, turn_ok=True):
    if budget is None:
        budget = [draw(st.integers(4, 30))]
    nodes = []
    n = draw(st.integers(1, 4))
    for _ in range(n):
        if budget[0] <= 0:
            break
        budget[0] -= 1
        kinds = ["check", "prog", "ctx", "ctx", "ctx", "try", "raise"]
        if turn_ok:
            # the process-wide switch is flipped at depth 0 (sets the default) or directly inside the body of a
            # mem_guard_on/off scope (whatever the body does, the scope restores the setting it found on entry)
            kinds += ["turn_on", "turn_off"]
        if depth >= 6:
            kinds = ["check", "prog", "raise"]
        k = draw(st.sampled_from(kinds))
        if k == "ctx":
            m = draw(st.sampled_from(MANAGERS))
            how = draw(st.sampled_from(["with", "with", "deco"] + (["deco_np"] if m == "na" else [])))
            nodes.append({"k": "ctx", "m": m, "how": how, "body": draw(trees(depth=depth + 1, budget=budget, turn_ok=m in ("on", "off")))})
        elif k == "try":
            nodes.append({"k": "try", "body": draw(trees(depth=depth + 1, budget=budget, turn_ok=False))})
        elif k == "prog":
            nodes.append({"k": "prog", "i": draw(st.integers(0, 3))})
        else:
            nodes.append({"k": k})
    return nodes


@st.composite
def cases(draw, tier="quick"):
    tree = draw(trees(budget=[draw(st.integers(4, 30 if tier == "quick" else 60))]))
    progs = []
    for _ in range(4):
        # (the process-wide switch is flipped only by the tree's own nodes, never inside a program)
        b = draw(history_program(max_steps=6, max_elems=8, allow_guard_off=False))
        progs.append(b.prog)
    return {"tree": tree, "progs": progs}


def _apply(model, m):
    t, g = model
    if m == "na":
        return (False, g)
    if m == "on":
        return (t, True)
    return (t, False)


class Driver:
    def __init__(self, case):
        import mygrad as mg
        import mygrad._utils.graph_tracking as _track
        import mygrad._utils.lock_management as _mem

        self.mg, self._track, self._mem = mg, _track, _mem
        self.case = case
        self.mismatch = None
        self.top_model = (True, True)
        self.carried = []
        self.stats = {"max_depth": 0, "exceptions_crossing": 0, "reentrant": 0, "progs_untracked": 0}

    def state(self):
        return (self._track.TRACK_GRAPH, self._mem.MEM_GUARD)

    def expect(self, model, where):
        got = self.state()
        if got != model or self.mg.mem_guard_active() != model[1]:
            raise _Mis(Mismatch("switch_state", f"{where}: (TRACK_GRAPH, MEM_GUARD)={got}, mem_guard_active()={self.mg.mem_guard_active()}, "
                                                f"model {model}"))

    def mgr(self, m):
        return {"na": self.mg.no_autodiff, "on": self.mg.mem_guard_on, "off": self.mg.mem_guard_off}[m]

    def run(self, nodes, model, depth, stack):
        """returns the (possibly changed, depth 0 only) model"""
        self.stats["max_depth"] = max(self.stats["max_depth"], depth)
        for node in nodes:
            k = node["k"]
            if k == "check":
                self.expect(model, f"depth {depth}")
            elif k in ("turn_on", "turn_off"):
                (self.mg.turn_memory_guarding_on if k == "turn_on" else self.mg.turn_memory_guarding_off)()
                model = (model[0], k == "turn_on")
                if depth == 0:
                    self.top_model = model  # outside every scope: the process-wide default
                else:
                    self.stats["turn_inside_scope"] = self.stats.get("turn_inside_scope", 0) + 1
                self.expect(model, f"after {k} at depth {depth}")
            elif k == "raise":
                raise _Boom()
            elif k == "try":
                try:
                    self.run(node["body"], model, depth + 1, stack + ["try"])
                except _Boom:
                    pass
                self.expect(model, f"after try-block at depth {depth}")
            elif k == "prog":
                self.run_prog(node["i"], model)
                self.expect(model, f"after program at depth {depth}")
            else:
                m = node["m"]
                inner = _apply(model, m)
                if m in stack:
                    self.stats["reentrant"] += 1
                mgr = self.mgr(m)

                def body(node=node, inner=inner, depth=depth, stack=stack, m=m):
                    self.expect(inner, f"inside {m} at depth {depth + 1}")
                    end = self.run(node["body"], inner, depth + 1, stack + [m])  # (the body may flip the switch itself)
                    self.expect(end, f"end of {m} body at depth {depth + 1}")
                    return np.arange(3.0)

                try:
                    if node["how"] == "with":
                        with mgr:
                            body()
                    elif node["how"] == "deco":
                        mgr(body)()
                    else:
                        out = mgr(body, to_numpy=True)()
                        if not isinstance(out, np.ndarray):
                            raise _Mis(Mismatch("to_numpy", "no_autodiff(f, to_numpy=True) did not return an ndarray"))
                except _Boom:
                    self.stats["exceptions_crossing"] += 1
                    self.expect(model, f"after exception left {m} scope at depth {depth}")
                    raise
                self.expect(model, f"after leaving {m} scope at depth {depth}")
        return model

    def check_carried(self):
        """Inside no_autodiff: backward() on tensors whose graphs were recorded with tracking on 'does nothing'."""
        mg = self.mg
        for run in self.carried[-2:]:
            tens = [(h, t) for h, t in run.env.items() if isinstance(t, mg.Tensor)]
            snap = {h: (id(t.creator), len(t._ops), id(t.base), id(t._grad), t.data.flags.writeable, t.data.tobytes())
                    for h, t in tens}
            for h, t in tens[-3:] + tens[:1]:
                t.backward()
            for h, t in tens:
                now = (id(t.creator), len(t._ops), id(t.base), id(t._grad), t.data.flags.writeable, t.data.tobytes())
                if now != snap[h]:
                    fields = ["creator", "consumers", "base", "grad", "writeable", "data"]
                    bad = [f for f, a, b_ in zip(fields, snap[h], now) if a != b_]
                    raise _Mis(Mismatch("untracked_backward_disturbed_graph",
                                        f"backward() inside no_autodiff changed {bad} of a tensor (constant={t.constant}) "
                                        f"whose graph was recorded with tracking on"))
        if self.carried:
            self.stats["carried_checked"] = self.stats.get("carried_checked", 0) + 1

    # -------------------------------------------------------------------------------- programs
    def run_prog(self, i, model):
        mg = self.mg
        prog = self.case["progs"][i]
        tracked, guard = model
        if tracked:
            # behaviour with tracking on is the subject of C01..C14; here only: it runs, and scopes are untouched.
            # Its (live) graph is carried along: later untracked scopes must not disturb it.
            run = ir.MgRun(prog).run()
            if run.error is not None:
                raise _Mis(Mismatch("raised", f"tracked program: {fmt_exc(run.error)}"))
            self.carried.append(run)
            return
        self.stats["progs_untracked"] += 1
        self.check_carried()
        ref = ir.RefRun(prog)
        run = ir.MgRun(prog)
        # leaves that carry a gradient from an earlier (tracked) life
        pre = {}
        for idx, s in enumerate(prog["stmts"]):
            before_flags = {h: (a.flags.writeable if isinstance(a, np.ndarray) else a.data.flags.writeable)
                            for h, a in run.env.items() if isinstance(a, (np.ndarray, mg.Tensor))}
            before_ops = {h: len(t._ops) for h, t in run.env.items() if isinstance(t, mg.Tensor)}
            before_grad = {h: t._grad for h, t in run.env.items() if isinstance(t, mg.Tensor)}
            data_obj = {h: t.data for h, t in run.env.items() if isinstance(t, mg.Tensor)}
            try:
                run.exec(idx, s)
            except Exception as e:  # noqa: BLE001
                raise _Mis(Mismatch("raised", f"untracked stmt {idx} {s.get('op', s.get('kind', s['k']))}: {fmt_exc(e)}"))
            ref.exec(idx, s)
            if s["k"] == "leaf" and isinstance(run.env[s["h"]], mg.Tensor) and not run.env[s["h"]].constant:
                t = run.env[s["h"]]
                t._grad = np.full(t.shape, 7.0)  # pretend: gradient left from an earlier tracked backward
                pre[s["h"]] = t._grad
                continue
            for h, t in run.env.items():
                if not isinstance(t, mg.Tensor):
                    continue
                a = ref.env[h]
                if t.shape != a.shape or t.dtype != a.dtype or not np.allclose(t.data, a, rtol=1e-13, atol=1e-13, equal_nan=True):
                    raise _Mis(Mismatch("untracked_value", f"stmt {idx}: h{h} differs from the NumPy reference inside no_autodiff"))
                if h in before_ops and len(t._ops) != before_ops[h]:
                    raise _Mis(Mismatch("untracked_consumer", f"stmt {idx}: h{h} gained a recorded consumer inside no_autodiff"))
                if h in before_grad and t._grad is not before_grad[h]:
                    raise _Mis(Mismatch("untracked_grad_touched", f"stmt {idx}: h{h}.grad was replaced/nulled inside no_autodiff"))
            if s["k"] == "op":
                r = run.env[s["h"]]
                if r.creator is not None or r.base is not None:
                    raise _Mis(Mismatch("untracked_graph", f"stmt {idx}: result has creator={r.creator is not None} base={r.base is not None} inside no_autodiff"))
            if s["k"] == "inplace" and s["kind"] != "shape":
                t = run.env[s["target"]]
                if t.data is not data_obj[s["target"]]:
                    raise _Mis(Mismatch("untracked_inplace_rehomed", f"stmt {idx}: in-place update replaced t.data instead of writing into it"))
            for h, a in run.env.items():
                if h in before_flags:
                    w = a.flags.writeable if isinstance(a, np.ndarray) else a.data.flags.writeable
                    if w != before_flags[h]:
                        raise _Mis(Mismatch("untracked_lock", f"stmt {idx}: writeable flag of h{h} changed inside no_autodiff"))
        # backward does nothing
        tens = [h for h, t in run.env.items() if isinstance(t, mg.Tensor) and not t.constant and t.dtype.kind == "f"]
        if tens:
            L = run.env[tens[-1]]
            g0 = {h: run.env[h]._grad for h in tens}
            L.backward()
            for h in tens:
                if run.env[h]._grad is not g0[h]:
                    raise _Mis(Mismatch("untracked_backward", f"backward() inside no_autodiff changed h{h}.grad"))


class _Mis(Exception):
    def __init__(self, mm):
        self.mm = mm


def tree_stats(tree, depth=1, mgrs=None, out=None):
    out = out if out is not None else {"depth": 0, "managers": set(), "nodes": 0, "raise": 0, "try": 0}
    for n in tree:
        out["nodes"] += 1
        if n["k"] == "ctx":
            out["depth"] = max(out["depth"], depth)
            out["managers"].add(n["m"])
            tree_stats(n["body"], depth + 1, mgrs, out)
        elif n["k"] == "try":
            out["try"] += 1
            tree_stats(n["body"], depth, mgrs, out)
        elif n["k"] == "raise":
            out["raise"] += 1
    return out


def skeleton(tree):
    return [[n["k"], n.get("m"), n.get("how"), skeleton(n["body"]) if "body" in n else None] for n in tree]


def check_case(case, rec=None):
    reset_mygrad()
    d = Driver(case)
    model = (True, True)
    mm = None
    try:
        try:
            d.run(case["tree"], model, 0, [])
        except _Boom:
            pass  # an exception that nobody caught reaches the top: every scope must have been unwound
        d.expect(d.top_model, "at the end")
    except _Mis as e:
        mm = e.mm
    except Exception as e:  # noqa: BLE001
        mm = Mismatch("raised", fmt_exc(e))
    if rec is not None:
        stt = tree_stats(case["tree"])
        labels = [f"depth={min(stt['depth'], 6)}"] + ["mgr_" + m for m in sorted(stt["managers"])]
        if d.stats["exceptions_crossing"]:
            labels.append("exception_crossed_scope")
        if d.stats["reentrant"]:
            labels.append("reentrant")
        if d.stats["progs_untracked"]:
            labels.append("program_run_untracked")
        if d.stats.get("carried_checked"):
            labels.append("backward_on_carried_graph_inside_no_autodiff")
        nt = (stt["depth"] >= 2 and len(stt["managers"]) >= 2) or d.stats["exceptions_crossing"] > 0 or d.stats["reentrant"] > 0
        rec.note(skeleton(case["tree"]), nt, labels, sample={"tree": case["tree"]})
    reset_mygrad()
    return mm


N = {"quick": 1000, "thorough": 15000}


def shard_plan(tier):
    return [f"s{i}" for i in range(16)]


def run_shard(shard, seed, tier):
    rec = Recorder()
    viol = drive(prop=PROPERTY, name="scopes", strategy=cases(tier), check_case=lambda c: check_case(c, rec), rec=rec, seed=seed,
                 max_examples=N[tier])
    out = rec.result()
    out["violations"] = viol
    return out


def replay(check, case):
    return check_case(case)
