"""C02 — each operation's backward pass is the exact VJP of its own forward pass."""

from __future__ import annotations

import numpy as np
from hypothesis import strategies as st

from vf import ir
from vf.common import Mismatch, Recorder, drive, fmt_exc, reset_mygrad
from vf import gen
from vf.gen import Builder, draw_shape, shape_variant
from vf.ref import OPS
from vf import layers_ref  # noqa: F401  (registers the layer ops)

PROPERTY = "C02"
RULE = (
    "One-operation programs: the op is drawn uniformly from the whole vocabulary (every registered Operation "
    "class reachable through the public API: ~100 spellings incl. layers and losses), its operands are 1-3 leaves "
    "of drawn kind (non-constant/constant tensor, ndarray, python scalar, int array), shape (broadcast-compatible "
    "families incl. 0-d, size-1 axes and - for ops that accept them - empty) and memory layout (C, F, negative "
    "stride, strided slice, 0-stride broadcast, relaxed size-1 stride, offset), every keyword option of the public "
    "signature is drawn (positive/negative/tuple/empty/None axes, keepdims, ddof, ord, where= masks incl. broadcast "
    "masks, dtype=, einsum subscripts with traces/repeated operands/implicit output, all index kinds and integer "
    "index dtypes, repeats, shifts, stride/padding/dilation of layers) and the result is back-propagated with an "
    "arbitrary incoming gradient g (None, scalar, full array in C or F order). Oracle: every operand's gradient == "
    "complex-step derivative of sum(g*f(x)) through an independent NumPy definition; masked-out elements receive "
    "exactly 0; plus exact conventions at generated kink points (|x| at 0, ties of maximum/minimum, arcsin/arccos at "
    "+-1). Registry coverage is measured: Operation subclasses never exercised are listed in evidence. Non-trivial "
    "= non-default option, broadcasting, non-C-contiguous / 0-d / empty operand or non-uniform g; distinct by (op, "
    "params, shapes, layouts, seed kind)."
)
ASSUMPTIONS = [
    "reference definitions are NumPy kernels / naive loops made complex-safe; MyGrad is never used by the oracle",
    "max/min reductions at ties: only the validity predicate (gradient supported on the arg-extremal set, summing to g) is checked",
]

STEP_OF = {}
for _n in gen.UNARY_SMOOTH + gen.UNARY_KINKY:
    STEP_OF[_n] = gen.step_unary
for _n in gen.BINARY:
    STEP_OF[_n] = gen.step_binary
for _n in gen.REDUCE + ["cumsum", "cumprod", "norm"]:
    STEP_OF[_n] = gen.step_reduce
for _n in gen.VIEWS:
    STEP_OF[_n] = gen.step_view
for _n in ["flatten", "roll", "repeat", "getitem_adv", "softmax", "logsoftmax", "glu", "clip", "where"]:
    STEP_OF[_n] = gen.step_shape_nonview
for _n in gen.NARY + ["multi_matmul"]:
    STEP_OF[_n] = gen.step_nary
ALL_NAMES = sorted(STEP_OF)
# ops whose option space is large are drawn more often (axis x keepdims x ddof, ord, subscripts, index kinds, ...)
_WEIGHT = {"multi_matmul": 3, "var": 5, "std": 5, "sum": 3, "mean": 3, "prod": 3, "max": 4, "min": 4, "norm": 4, "einsum": 4, "getitem": 3,
           "getitem_adv": 4, "repeat": 3, "matmul": 3, "softmax": 2, "logsoftmax": 2, "cumsum": 2, "cumprod": 2, "roll": 2,
           "transpose": 2, "reshape": 4, "ravel": 2, "flatten": 2, "squeeze": 2, "where": 2, "clip": 2, "concatenate": 2, "stack": 2, "power": 2}
WEIGHTED_NAMES = [n for n in ALL_NAMES for _ in range(_WEIGHT.get(n, 1))]

LAYOUTS = [None, None, "F", "F", "T", "neg", "sliced", "bcast", "relaxed", "offset"]


def _seed(draw, shape):
    kind = draw(st.sampled_from(["none", "scalar", "full", "full", "full_F", "full_F"] if len(shape) >= 2 else ["none", "scalar", "full", "full"]))
    if kind == "none":
        return None
    if kind == "scalar":
        return {"kind": "scalar", "v": draw(st.integers(-12, 12)) / 4.0}
    n = int(np.prod(shape)) if len(shape) else 1
    vals = [k / 4.0 for k in draw(st.lists(st.integers(-12, 12), min_size=n, max_size=n))]
    s = {"kind": "array", "v": vals, "shape": list(shape), "dtype": "float64"}
    if kind == "full_F" and len(shape) >= 2:
        s["order"] = "F"
    return s


@st.composite
def cases(draw, names=None, flags=False):
    """flags=True (used by C10): operands of every constant/non-constant kind in every position and an explicit
    constant= keyword on the op now and then"""
    name = draw(st.sampled_from(names or WEIGHTED_NAMES))
    b = Builder(draw, max_elems=30, allow_int=True)
    b.allow_const_flag = bool(flags)
    if flags:
        b.allow_const_false = True
        b.const_flag_odds = 5
    b.ufunc_options = True
    b.allow_empty = draw(st.integers(0, 7)) == 0
    b.recency_bias = False
    base = draw_shape(draw, max_ndim=3, max_side=4, cap=24, min_side=0 if b.allow_empty else 1)
    if name in ("matmul", "op_matmul", "multi_matmul", "einsum", "diag_einsum", "glu", "norm") and len(base) == 0:
        base = [draw(st.integers(1, 3)), draw(st.integers(1, 3))]
    if name == "diag_einsum":
        n = draw(st.integers(1, 4))
        base = [n, n]
    if name == "multi_matmul" and len(base) != 2:
        base = [draw(st.integers(1, 3)), draw(st.integers(1, 3))]
    nleaves = draw(st.integers(1, 3))
    # operand values inside the op's domain on BOTH sides of zero (the smooth domain fix-ups only produce positives)
    dom0 = OPS[name].dom[0] if name in OPS and STEP_OF.get(name) is gen.step_unary and OPS[name].dom else "any"
    leaf_kw = {"absgt1": {"band": (20, 48)}, "nonzero": {"band": (3, 48)}, "nz_small": {"band": (3, 44)}, "unit": {"lo": -13, "hi": 13},
               "pos": {"lo": 4, "hi": 48}, "gt1": {"lo": 20, "hi": 48}}.get(dom0, {})
    for i in range(nleaves):
        kind = draw(st.sampled_from(["var", "var", "var", "const", "array", "scalar", "intarray"])) if i else (
            draw(st.sampled_from(["var", "var", "const", "array"])) if flags else "var")
        shape = list(base) if i == 0 else ([] if kind == "scalar" else shape_variant(draw, base))
        layout = draw(st.sampled_from(LAYOUTS)) if kind in ("var", "const", "array") and len(shape) >= 1 else None
        if layout == "relaxed" and 1 not in shape:
            layout = None
        if kind == "scalar":
            b.scalar_leaf()
        elif kind in ("var", "const", "array"):
            b.leaf(kind, shape, layout=layout, **leaf_kw)
        else:
            b.leaf(kind, shape, layout=layout)
    step = STEP_OF[name]
    h = None
    forced = "getitem" if name == "getitem_adv" else name
    for _ in range(4):
        h = step(b, name=name) if name != "getitem_adv" else step(b, name="getitem_adv")
        if h is not None:
            break
    if h is None:
        # not applicable to these operands: fall back to an always-applicable op so the case is not wasted
        h = gen.step_binary(b, name="multiply") or gen.step_unary(b, name="negative")
        name = "(fallback)"
    seed = _seed(draw, b.shape(h))
    return {"prog": b.prog, "L": h, "seed": seed, "op": name}


def classify(case, ref):
    prog = case["prog"]
    labels = ["op=" + case["op"]]
    nontrivial = False
    shapes = []
    for s in prog["stmts"]:
        if s["k"] == "leaf":
            if s.get("layout"):
                labels.append("layout_" + s["layout"])
                nontrivial = True
            if len(s["shape"]) == 0 and s["kind"] in ("var", "const", "array"):
                labels.append("0-d_operand")
                nontrivial = True
            if 0 in s["shape"]:
                labels.append("empty_operand")
                nontrivial = True
        elif s["k"] == "op":
            shp = {tuple(ref.env[a].shape) for a in s["args"] if a in ref.env}
            if len(shp) > 1:
                labels.append("broadcast")
                nontrivial = True
            if s.get("p"):
                nontrivial = True
    sd = case["seed"]
    if sd is not None and sd["kind"] != "scalar" and len(set(sd["v"])) > 1:
        nontrivial = True
        labels.append("nonuniform_g")
    if sd is not None and sd.get("order") == "F":
        labels.append("g_F_ordered")
    return nontrivial, labels


def op_classes_hit(prog, mgrun):
    """names of the Operation classes that created the tensors of this program"""
    out = set()
    mg = mgrun.mg
    for t in mgrun.env.values():
        if isinstance(t, mg.Tensor) and t.creator is not None:
            out.add(type(t.creator).__name__)
    return out


def check_case(case, rec=None):
    prog, L, seed = case["prog"], case["L"], case["seed"]
    reset_mygrad()
    run = ir.MgRun(prog).run()
    if run.error is not None:
        return Mismatch("raised", f"{case['op']} stmt {run.error_idx}: {fmt_exc(run.error)}", op=case["op"])
    hit = op_classes_hit(prog, run)
    exp = ir.expected_after_backward(prog, L, seed=seed)
    if rec is not None:
        nt, labels = classify(case, exp.ref)
        if exp.kinks:
            labels.append("kink")
        skel = [[s.get("op"), s.get("p"), s.get("shape"), s.get("layout"), s.get("kind")] for s in prog["stmts"]]
        rec.note([skel, L, seed and (seed["kind"], seed.get("order"))], nt, labels,
                 sample={"op": case["op"], "L": L, "seed": seed, "stmts": prog["stmts"]})
        ops = rec.extra.setdefault("op_classes_exercised", [])
        for o in sorted(hit):
            if o not in ops:
                ops.append(o)
    mg = run.mg
    try:
        if seed is None:
            run.env[L].backward()
        else:
            run.env[L].backward(ir.decode_seed(mg, seed))
    except Exception as e:  # noqa: BLE001
        return Mismatch("backward_raised", f"{case['op']}: {fmt_exc(e)}", op=case["op"])
    mm = ir.compare_grads(exp, run)
    if mm is not None:
        mm.extra["op"] = case["op"]
        mm.detail = f"[{case['op']}] " + mm.detail
        return mm
    for h, t in run.env.items():
        if isinstance(t, mg.Tensor) and t.grad is not None:
            g = t.grad
            if type(g) is not np.ndarray or g.shape != t.shape or g.dtype != t.dtype:
                return Mismatch("grad_meta", f"[{case['op']}] h{h}: grad {type(g).__name__} {g.shape} {g.dtype} vs tensor {t.shape} {t.dtype}",
                                op=case["op"])
    return None


# ------------------------------------------------------------------------------------ kink conventions


@st.composite
def conv_cases(draw):
    kind = draw(st.sampled_from(["abs0", "absolute0", "max_tie", "min_tie", "arcsin1", "arccos1"]))
    n = draw(st.integers(1, 5))
    vals = [draw(st.integers(-8, 8)) / 4.0 for _ in range(n)]
    pos = draw(st.lists(st.booleans(), min_size=n, max_size=n))
    if not any(pos):
        pos[draw(st.integers(0, n - 1))] = True
    g = [draw(st.integers(-8, 8)) / 4.0 for _ in range(n)]
    return {"kind": kind, "vals": vals, "at": pos, "g": g, "nan_to_num": draw(st.booleans())}


def check_conv(case):
    import mygrad as mg

    reset_mygrad()
    k = case["kind"]
    v = np.array(case["vals"], dtype=float)
    at = np.array(case["at"], dtype=bool)
    g = np.array(case["g"], dtype=float)
    try:
        if k in ("abs0", "absolute0"):
            v[at] = 0.0
            at = v == 0.0  # drawn values may be zero as well
            x = mg.tensor(v)
            f = mg.abs if k == "abs0" else mg.absolute
            kw = {} if case["nan_to_num"] else {"nan_to_num": False}
            y = f(x, **kw)
            y.backward(g)
            want = g * np.sign(v)
            got = x.grad
            if case["nan_to_num"]:
                if not np.array_equal(got, want):
                    return Mismatch("convention_abs", f"d|x|/dx at 0 must be 0: x={v.tolist()} g={g.tolist()} grad={got.tolist()}")
            else:
                if not (np.all(np.isnan(got[at])) and np.array_equal(got[~at], want[~at])):
                    return Mismatch("convention_abs_nan", f"nan_to_num=False must give NaN exactly at 0: x={v.tolist()} grad={got.tolist()}")
        elif k in ("max_tie", "min_tie"):
            w = v.copy() + 1.0
            w[at] = v[at]  # ties exactly where `at`
            if k == "min_tie":
                w = v.copy() - 1.0
                w[at] = v[at]
            a, b_ = mg.tensor(v), mg.tensor(w)
            f = mg.maximum if k == "max_tie" else mg.minimum
            y = f(a, b_)
            y.backward(g)
            if np.any(a.grad[at] != 0) or np.any(b_.grad[at] != 0):
                return Mismatch("convention_tie", f"{k}: ties must send zero gradient to both operands: a.grad={a.grad.tolist()} b.grad={b_.grad.tolist()}")
            sel = ~at
            # away from ties: w is the max (or the min) -> all gradient goes to b
            if not np.array_equal(b_.grad[sel], g[sel]) or np.any(a.grad[sel] != 0):
                return Mismatch("convention_tie_away", f"{k}: away from ties gradient routing is wrong")
        elif k in ("arcsin1", "arccos1"):
            v = np.clip(v / 4.0, -0.9, 0.9)
            sign = np.where(np.array(case["g"]) >= 0, 1.0, -1.0)
            v[at] = sign[at]
            x = mg.tensor(v)
            y = (mg.arcsin if k == "arcsin1" else mg.arccos)(x)
            y.backward(g)
            got = x.grad
            if np.any(got[at] != 0) or not np.all(np.isfinite(got)):
                return Mismatch("convention_arcsin", f"{k}: gradient at +-1 must be 0, got {got.tolist()} for x={v.tolist()}")
            d = 1.0 / np.sqrt(1 - v[~at] ** 2)
            want = g[~at] * (d if k == "arcsin1" else -d)
            if not np.allclose(got[~at], want, rtol=1e-12, atol=1e-12):
                return Mismatch("convention_arcsin_away", f"{k}: wrong gradient away from +-1")
        else:  # norm0: L2 norm of the zero vector with nan_to_num default -> finite (0) gradient
            z = np.zeros_like(v)
            x = mg.tensor(z)
            y = mg.linalg.norm(x)
            y.backward()
            if not np.all(np.isfinite(x.grad)):
                return Mismatch("convention_norm", f"norm of the zero vector with nan_to_num=True gave a non-finite gradient {x.grad.tolist()}")
    except Exception as e:  # noqa: BLE001
        return Mismatch("convention_raised", f"{k}: {fmt_exc(e)}")
    return None


# ------------------------------------------------------------------------------------ oracle self-test
def ref_selftest(case):
    """The reference must agree with itself: complex-step derivatives (which every gradient oracle uses) vs central
    finite differences of the *same* NumPy reference run in float64.  A disagreement is a harness error, never a
    violation: it means a complex-safe re-definition does not match the real kernel's derivative."""
    from vf.common import HarnessError

    prog, L, seed = case["prog"], case["L"], case["seed"]
    exp = ir.expected_after_backward(prog, L, seed=seed)
    if exp.kinks or not np.isfinite(exp.gmax) or exp.gmax > 1e4 or exp.vmax > 1e3 or exp.ref.lowprec:
        return  # (a dtype=float32 option makes finite differences meaningless)
    ref = exp.ref
    g = ir.seed_array(seed, ref.env[L].shape)
    eps = 1e-6
    for h, eg in exp.grads.items():
        if eg is None or ref.owner[h] != h or eg.size == 0:
            continue
        st_idx = ref.last_write[h]
        for k in range(eg.size):
            vals = []
            for sgn in (+1, -1):
                r = ir.RefRun(prog)
                for idx, s_ in enumerate(prog["stmts"]):
                    r.exec(idx, s_)
                    if idx == st_idx:
                        a = r.env[h]
                        ix = np.unravel_index(k, a.shape) if a.ndim else ()
                        a[ix] += sgn * eps
                vals.append(float(np.sum(g * r.env[L])))
            fd = (vals[0] - vals[1]) / (2 * eps)
            cs = float(eg.reshape(-1)[k])
            if abs(fd - cs) > 1e-4 * (1 + abs(cs)) + 1e-5 * (1 + exp.gmax) * (1 + exp.vmax):
                raise HarnessError(f"REF self-test: op {case['op']}: complex-step {cs!r} vs finite difference {fd!r} for h{h}[{k}]; "
                                   f"program {prog['stmts']}")


# ------------------------------------------------------------------------------------ registry coverage


def registry():
    import inspect

    import mygrad.nnet.layers.gru  # noqa: F401
    import mygrad.nnet  # noqa: F401
    from mygrad.operation_base import Operation

    def subs(c):
        out = []
        for s in c.__subclasses__():
            out.append(s)
            out += subs(s)
        return out

    return sorted({c.__name__ for c in subs(Operation) if not inspect.isabstract(c) and not c.__name__.startswith("_")})


N = {"quick": 550, "thorough": 5000}
NCONV = {"quick": 200, "thorough": 3000}


def shard_plan(tier):
    from vf.checks import c02_layers  # noqa: F401

    return [f"ops{i}" for i in range(10)] + ["refself0", "conv0"] + [f"layers{i}" for i in range(4)]


def run_shard(shard, seed, tier):
    rec = Recorder()
    if shard.startswith("ops"):
        viol = drive(prop=PROPERTY, name="vjp", strategy=cases(), check_case=lambda c: check_case(c, rec), rec=rec, seed=seed,
                     max_examples=N[tier])
    elif shard.startswith("refself"):
        def cs(case):
            rec.note([[s_.get("op"), s_.get("p"), s_.get("shape")] for s_ in case["prog"]["stmts"]], True, ["ref_selftest"],
                     sample={"op": case["op"], "stmts": case["prog"]["stmts"]})
            ref_selftest(case)
            return None

        viol = drive(prop=PROPERTY, name="ref_selftest", strategy=cases(), check_case=cs, rec=rec, seed=seed,
                     max_examples=N[tier] // 2)
    elif shard.startswith("conv"):
        def cc(case):
            rec.note(case, True, ["convention_" + case["kind"]], sample=case)
            return check_conv(case)

        viol = drive(prop=PROPERTY, name="convention", strategy=conv_cases(), check_case=cc, rec=rec, seed=seed,
                     max_examples=NCONV[tier])
    else:
        from vf.checks import c02_layers

        viol = c02_layers.run(rec, seed, tier)
    out = rec.result()
    out["violations"] = viol
    if shard == "ops0":
        out["extra"]["op_registry"] = registry()
    return out


def replay(check, case):
    if check == "convention":
        return check_conv(case)
    if check == "layer_vjp":
        from vf.checks import c02_layers

        return c02_layers.check_case(case)
    return check_case(case)
