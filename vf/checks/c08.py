"""C08 — memory guard: arrays in a live graph are read-only, and restored afterwards."""

from __future__ import annotations

import gc

import numpy as np
from hypothesis import strategies as st

from vf.common import Mismatch, Recorder, drive, fmt_exc, reset_mygrad

PROPERTY = "C08"
RULE = (
    "Histories (3-28 steps) over a handle table owned by the harness: new ndarray (writeable or natively "
    "read-only), NumPy view of an array (taken while its owner is locked or not), tensor wrapping an array "
    "without copying (constant or not), ops over any mix of tensors/arrays/views (unary, binary, n-ary "
    "sequence, view-producing, out=ndarray, out=Tensor, where=), in-place item assignment, failing ops, "
    "backward, clear_graph and dropping any handle, in any order, so that graphs overlap on shared arrays. "
    "Oracle after every step, recomputed from first principles by walking creator->inputs from the tensors the "
    "harness still holds: (i) every array (and its base) of every reachable op none of whose upstream tensors "
    "was cleared is non-writeable and a write attempt raises; (ii) every array that entered an op, is not "
    "reachable and whose owning buffer is not reachable has writeable == its original flag (a view taken from a "
    "locked owner counts as the owner's original flag); (iii) at quiescence (everything dropped / cleared) all "
    "flags are original. The lock manager's own counters are never consulted. Non-trivial = a history in which "
    "some array is held by >=2 live ops at once, or a NumPy view enters an op, or a failing op / out= target "
    "occurs; distinct by statement list."
)
ASSUMPTIONS = [
    "CPython reference counting frees dropped tensors/ops immediately (gc.collect() is only used at quiescence)",
    "arrays that never entered an operation are not asserted (MyGrad never saw them)",
]

N_LEN = 4
RECORDED_ONLY = False  # see vf/known.py (C08-cleared-then-inplace-rehomed-input)


class Sim:
    def __init__(self):
        import mygrad as mg
        import mygrad.errors  # noqa: F401

        self.mg = mg
        self.h = {}  # handle -> object (ndarray or Tensor)
        self.kind = {}  # handle -> "arr" | "view" | "tensor"
        self.orig = {}  # id(array) -> (array weak?, original flag)  for user arrays / views
        self.tracked = []  # list of (array, original_flag, entered_op: [bool]) kept alive by the harness? no: weakly
        self.was_result = set()  # id(tensor) of op results (had a creator when recorded)
        self.trace = []
        self.op_arrays = {}  # id(op) -> (weakref(op), [arrays the op was called on / produced])

    # ------------------------------------------------------------------ arrays the oracle knows about
    def note_array(self, arr, original):
        self.tracked.append([arr, bool(original), False])

    def entry(self, arr):
        for e in self.tracked:
            if e[0] is arr:
                return e
        return None

    def mark_entered(self, obj):
        mg = self.mg
        arr = obj.data if isinstance(obj, mg.Tensor) else obj
        if isinstance(arr, np.ndarray):
            e = self.entry(arr)
            if e is None:
                # a tensor's own data array first seen now: fresh arrays are writeable by origin
                self.note_array(arr, self._origin_flag(arr))
                e = self.entry(arr)
            e[2] = True

    def _origin_flag(self, arr):
        # data arrays created by MyGrad (op outputs): writeable by origin; views inherit the owner's origin
        b = arr.base
        while b is not None and isinstance(b, np.ndarray):
            e = self.entry(b)
            if e is not None:
                return e[1]
            b = b.base
        return True


def owner_of(arr):
    b = arr
    while isinstance(b.base, np.ndarray):
        b = b.base
    return b


def reachable(sim):
    """Walk creator -> inputs from every held tensor.  Returns (dict id->array of arrays that must be locked,
    set of ids exempt from clause (i) because an upstream tensor of their op was cleared)."""
    mg = sim.mg
    S = {}
    exempt = set()
    seen_ops = {}

    def visit_tensor(t):
        """returns True if the sub-graph above t is intact (no cleared op result)"""
        op = t.creator
        if op is None:
            return id(t) not in sim.was_result
        if id(op) in seen_ops:
            return seen_ops[id(op)]
        seen_ops[id(op)] = True
        intact = True
        for v in op.variables:
            if not visit_tensor(v):
                intact = False
        arrs = [t.data] + [v.data for v in op.variables]
        rec = sim.op_arrays.get(id(op))
        if rec is not None and rec[0]() is op:
            arrs = arrs + list(rec[1])  # arrays recorded when the op was called (its tensors may have been re-homed)
        for a in arrs:
            for x in (a, a.base):
                if isinstance(x, np.ndarray):
                    S[id(x)] = x
                    if not intact:
                        exempt.add(id(x))
        seen_ops[id(op)] = intact
        return intact

    for h, obj in sim.h.items():
        if isinstance(obj, mg.Tensor):
            visit_tensor(obj)
    # an array exempt through one op may still be required through another intact op
    return S, exempt


def oracle(sim, after, quiescent=False):
    S, exempt = reachable(sim)
    # (i)
    required = {}
    # recompute which arrays are required by at least one intact op
    mg = sim.mg
    intact_required = set()
    seen = {}

    def intact(t):
        op = t.creator
        if op is None:
            return id(t) not in sim.was_result
        if id(op) in seen:
            return seen[id(op)]
        seen[id(op)] = True
        ok = all([intact(v) for v in op.variables])
        seen[id(op)] = ok
        if ok:
            arrs = [t.data] + [v.data for v in op.variables]
            rec_ = sim.op_arrays.get(id(op))
            if RECORDED_ONLY and rec_ is not None and rec_[0]() is op:
                # (only for the known-finding predicate) the arrays the op was actually called on and produced,
                # not the current data of its - possibly re-homed - tensors
                arrs = list(rec_[1])
            for a in arrs:
                for x in (a, a.base):
                    if isinstance(x, np.ndarray):
                        intact_required.add(id(x))
        return ok

    for obj in sim.h.values():
        if isinstance(obj, mg.Tensor):
            intact(obj)
    for i in intact_required:
        a = S[i]
        if a.flags.writeable:
            return Mismatch("unlocked_in_live_graph", f"after step {after}: an array of a live, uncleared graph is writeable "
                                                      f"(shape {a.shape}, is_view={a.base is not None})")
    # (ii)
    for arr, original, entered in sim.tracked:
        if not entered:
            continue
        if id(arr) in S or id(owner_of(arr)) in S:
            continue
        # any *other* tracked view sharing this buffer that is reachable keeps the buffer guarded
        if arr.flags.writeable != original:
            return Mismatch(
                "flag_not_restored",
                f"after step {after}: array (shape {arr.shape}, is_view={arr.base is not None}) no live graph refers to "
                f"has writeable={arr.flags.writeable}, original {original}" + (" [quiescent]" if quiescent else ""),
            )
    return None


# ------------------------------------------------------------------------------------ execution


def execute(case):
    import mygrad as mg

    reset_mygrad()
    sim = Sim()
    stmts = case["stmts"]
    for idx, s in enumerate(stmts):
        k = s["k"]
        try:
            _step(sim, s)
        except _Expected:
            pass
        mm = oracle(sim, idx)
        if mm is not None:
            return mm
    # quiescence: drop everything (in the drawn order), then all flags must be original
    order = case.get("final_drop", [])
    keys = list(sim.h)
    for i in order:
        if keys:
            kx = keys.pop(i % len(keys))
            obj = sim.h.pop(kx)
            del obj
            mm = oracle(sim, f"final-drop-{kx}")
            if mm is not None:
                return mm
    for kx in keys:
        sim.h.pop(kx)
    gc.collect()
    return oracle(sim, "quiescence", quiescent=True)


class _Expected(Exception):
    pass


def _get(sim, h):
    if h not in sim.h:
        # the statement that should have produced h failed legitimately (e.g. out= target was read-only)
        raise _Expected()
    return sim.h[h]


def _step(sim, s):
    mg = sim.mg
    k = s["k"]
    if k == "arr":
        a = np.arange(float(s["n"])) + s.get("off", 0.5)
        if s.get("ro"):
            a.flags.writeable = False
        sim.h[s["h"]] = a
        sim.kind[s["h"]] = "arr"
        sim.note_array(a, not s.get("ro"))
    elif k == "npview":
        src = _get(sim, s["of"])
        v = src[slice(*s["sl"])]
        sim.h[s["h"]] = v
        sim.kind[s["h"]] = "view"
        e = sim.entry(src)
        sim.note_array(v, e[1] if e is not None else src.flags.writeable)
    elif k == "tensor":
        src = _get(sim, s["of"])
        t = mg.tensor(src, copy=False, constant=s.get("constant"))
        sim.h[s["h"]] = t
        sim.kind[s["h"]] = "tensor"
    elif k == "op":
        args = [_get(sim, a) if isinstance(a, int) else a["lit"] for a in s["args"]]
        name = s["name"]
        before = _flags(sim)
        try:
            if name == "neg":
                out = mg.negative(args[0])
            elif name == "exp_where":
                out = mg.exp(args[0], where=np.array(s["where"], dtype=bool))
            elif name == "add":
                out = mg.add(args[0], args[1])
            elif name == "mul_op":
                out = args[0] * args[1]
            elif name == "addseq":
                out = mg.add_sequence(*args)
            elif name == "slice":
                out = args[0][slice(*s["sl"])]
            elif name == "reshape":
                out = mg.reshape(args[0], (-1, 1))
            elif name == "add_out":
                tgt = _get(sim, s["out"])
                out = mg.add(args[0], args[1], out=tgt)
            elif name == "sum":
                out = mg.sum(args[0])
            else:  # pragma: no cover
                raise ValueError(name)
        except Exception:
            # an op may legitimately fail (e.g. out= target currently read-only); it must leave flags untouched
            if _unexplained_change(sim, before):
                raise _Trace("a failed op changed writeable flags")
            raise _Expected()
        for a in args:
            if isinstance(a, (np.ndarray, mg.Tensor)):
                sim.mark_entered(a)
        if name == "add_out":
            sim.mark_entered(_get(sim, s["out"]))
        if isinstance(out, mg.Tensor):
            if out.creator is not None:
                import weakref

                recorded = [x.data if isinstance(x, mg.Tensor) else x for x in args if isinstance(x, (np.ndarray, mg.Tensor))]
                recorded.append(out.data)
                sim.op_arrays[id(out.creator)] = (weakref.ref(out.creator), recorded)
                sim.was_result.add(id(out))
            sim.mark_entered(out)
            if name == "add_out" and isinstance(_get(sim, s["out"]), mg.Tensor):
                return  # in-place on an existing handle
            sim.h[s["h"]] = out
            sim.kind[s["h"]] = "tensor"
    elif k == "setitem":
        t = _get(sim, s["t"])
        v = _get(sim, s["v"]) if isinstance(s["v"], int) else s["v"]["lit"]
        before = _flags(sim)
        try:
            t[slice(*s["sl"])] = v
        except Exception:
            if _unexplained_change(sim, before):
                raise _Trace("a failed in-place update changed writeable flags")
            raise _Expected()
        if isinstance(v, (np.ndarray, mg.Tensor)):
            sim.mark_entered(v)
        sim.mark_entered(t)
        sim.was_result.add(id(t))
        if t.creator is not None:
            import weakref

            sim.op_arrays[id(t.creator)] = (weakref.ref(t.creator), [t.data])
    elif k == "fail":
        a = _get(sim, s["args"][0])
        bad = np.ones((N_LEN + 3, 2))
        sim.note_array(bad, True)
        sim.entry(bad)[2] = True
        before = _flags(sim)
        try:
            if s.get("variant") == "out":
                mg.add(a, bad[:, :1], out=bad[0])  # result shape (7, L) cannot be written into shape (2,)
            else:
                mg.matmul(a, bad)
        except Exception:
            pass
        else:
            raise _Trace("shape-mismatched op did not raise")
        if _unexplained_change(sim, before) or not bad.flags.writeable:
            raise _Trace("failing op left an array locked/unlocked")
    elif k == "backward":
        t = _get(sim, s["t"])
        try:
            t.backward()
        except (mg.errors.InvalidBackprop, RecursionError):
            # overlapping graphs: a refusal (C09's subject).  RecursionError is the form the recorded finding
            # C09-cleared-tensor-reused-or-mutated takes when a cleared tensor is updated in place with a value
            # computed from it (cyclic graph); it is raised before anything is released, and is not this property's.
            raise _Expected()
    elif k == "clear":
        _get(sim, s["t"]).clear_graph()
    elif k == "drop":
        sim.h.pop(s["h"], None)
    else:  # pragma: no cover
        raise ValueError(k)


class _Trace(Exception):
    pass


def _flags(sim):
    return tuple((id(e[0]), e[0].flags.writeable) for e in sim.tracked)


def _unexplained_change(sim, before):
    """After a failed statement: a flag may only have changed to read-only, and only for an array whose memory a
    live graph still guards (NumPy cannot re-enable a view of a locked owner)."""
    after = _flags(sim)
    if before == after:
        return False
    S, _ = reachable(sim)
    bmap = dict(before)
    for e in sim.tracked:
        arr = e[0]
        if bmap.get(id(arr), arr.flags.writeable) != arr.flags.writeable:
            if arr.flags.writeable == e[1]:
                continue  # went (back) to its original flag
            if arr.flags.writeable or not (id(arr) in S or id(owner_of(arr)) in S):
                return True
    return False


def check_case(case):
    try:
        return execute(case)
    except _Trace as e:
        return Mismatch("failed_op_trace", str(e))


# ------------------------------------------------------------------------------------ generation


@st.composite
def cases(draw, tier="quick"):
    stmts = []
    kinds = {}  # handle -> ("arr"|"view"|"tensor", length, is_float_tensor_nonconst)
    nh = [0]

    root = {}  # handle -> handle of the array that owns its memory (op results own theirs)

    def new(kind, length, extra=None, of=None):
        h = nh[0]
        nh[0] += 1
        kinds[h] = (kind, length, extra)
        root[h] = root.get(of, h) if of is not None else h
        return h

    def live(pred):
        return [h for h, v in kinds.items() if pred(v)]

    # start with 1-2 arrays
    for _ in range(draw(st.integers(1, 2))):
        h = new("arr", N_LEN)
        stmts.append({"k": "arr", "h": h, "n": N_LEN, "ro": draw(st.integers(0, 5)) == 0, "off": draw(st.integers(1, 9)) / 4})
    used_roots = set()  # roots some op has (probably) locked by now

    def early_view(src):
        # a NumPy view taken before anything is locked stays natively writeable while its owner is guarded: the
        # interesting out= target / operand
        sl = draw(st.sampled_from([[None, None, None], [None, None, None], [None, None, -1], [1, None, None], [None, None, 2]]))
        h = new("view", len(range(*slice(*sl).indices(N_LEN))), of=src)
        stmts.append({"k": "npview", "h": h, "of": src, "sl": sl})

    for h0 in list(kinds):
        if draw(st.booleans()):
            early_view(h0)
    nsteps = draw(st.integers(3, 28 if tier == "quick" else 45))
    for _ in range(nsteps):
        choice = draw(st.sampled_from(["arr", "npview", "tensor", "tensor", "op", "op", "op", "op", "op", "setitem", "fail",
                                       "backward", "clear", "drop", "drop"]))
        arrs = live(lambda v: v[0] in ("arr", "view"))
        tens = live(lambda v: v[0] == "tensor")
        if choice == "arr":
            h = new("arr", N_LEN)
            stmts.append({"k": "arr", "h": h, "n": N_LEN, "ro": draw(st.integers(0, 5)) == 0, "off": draw(st.integers(1, 9)) / 4})
            if draw(st.booleans()):
                early_view(h)
        elif choice == "npview" and arrs:
            src = draw(st.sampled_from(arrs))
            L = kinds[src][1]
            if L < 2:
                continue
            sl = draw(st.sampled_from([[None, None, 2], [1, None, None], [None, L - 1, None], [None, None, -1], [None, None, None]]))
            newlen = len(range(*slice(*sl).indices(L)))
            h = new("view", newlen, of=src)
            stmts.append({"k": "npview", "h": h, "of": src, "sl": sl})
        elif choice == "tensor" and arrs:
            src = draw(st.sampled_from(arrs))
            h = new("tensor", kinds[src][1], "1d", of=src)
            stmts.append({"k": "tensor", "h": h, "of": src, "constant": draw(st.sampled_from([None, True, False]))})
        elif choice == "op":
            pool = [h for h in arrs + tens if kinds[h][2] in (None, "1d")]
            if not pool:
                continue
            name = draw(st.sampled_from(["neg", "add", "add", "mul_op", "addseq", "slice", "reshape", "add_out", "add_out", "exp_where", "sum"]))
            a = draw(st.sampled_from(pool))
            L = kinds[a][1]
            same = [h for h in pool if kinds[h][1] == L]
            if name in ("neg", "sum"):
                h = new("tensor", L if name == "neg" else 0, "1d" if name == "neg" else "0d")
                stmts.append({"k": "op", "h": h, "name": name, "args": [a]})
            elif name == "exp_where":
                h = new("tensor", L, "1d")
                stmts.append({"k": "op", "h": h, "name": name, "args": [a], "where": draw(st.lists(st.booleans(), min_size=L, max_size=L))})
            elif name in ("add", "mul_op"):
                b2 = draw(st.sampled_from(same + [None]))
                if name == "mul_op" and kinds[a][0] != "tensor" and (b2 is None or kinds[b2][0] != "tensor"):
                    name = "add"
                args = [a, b2 if b2 is not None else {"lit": 2.0}]
                if draw(st.booleans()):
                    args = args[::-1]
                if name == "mul_op" and not isinstance(args[0], int) :
                    pass
                h = new("tensor", L, "1d")
                stmts.append({"k": "op", "h": h, "name": name, "args": args})
            elif name == "addseq":
                k = draw(st.integers(2, 3))
                args = [a] + [draw(st.sampled_from(same)) for _ in range(k - 1)]
                h = new("tensor", L, "1d")
                stmts.append({"k": "op", "h": h, "name": name, "args": args})
            elif name == "slice":
                if kinds[a][0] != "tensor" or L < 2:
                    continue
                sl = draw(st.sampled_from([[None, None, 2], [1, None, None], [None, None, -1], [None, None, None]]))
                newlen = len(range(*slice(*sl).indices(L)))
                h = new("tensor", newlen, "1d", of=a)
                stmts.append({"k": "op", "h": h, "name": name, "args": [a], "sl": sl})
            elif name == "reshape":
                h = new("tensor", L, "2d", of=a)
                stmts.append({"k": "op", "h": h, "name": name, "args": [a]})
            else:  # add_out
                outs = [h for h in same if kinds[h][0] in ("arr", "view", "tensor")]
                vouts = [h for h in outs if kinds[h][0] == "view"]
                hot = [h for h in vouts if root.get(h) in used_roots]  # views of a buffer another graph guards
                o = draw(st.sampled_from(hot if hot and draw(st.booleans()) else (vouts if vouts and draw(st.booleans()) else outs)))
                if draw(st.booleans()):
                    # operands that do not live in the target's buffer: the op's only tie to that buffer is out=
                    other = [h for h in same if root.get(h) != root.get(o)]
                    if other:
                        a = draw(st.sampled_from(other))
                        same = other
                b2 = draw(st.sampled_from(same + [None]))
                args = [a, b2 if b2 is not None else {"lit": 3.0}]
                h = new("tensor", L, "1d", of=o) if kinds[o][0] != "tensor" else None
                st_ = {"k": "op", "h": h if h is not None else -1, "name": name, "args": args, "out": o}
                stmts.append(st_)
            if stmts and stmts[-1]["k"] == "op":
                for x in stmts[-1]["args"]:
                    if isinstance(x, int):
                        used_roots.add(root.get(x))
        elif choice == "setitem" and tens:
            t = draw(st.sampled_from([h for h in tens if kinds[h][2] == "1d"] or tens))
            if kinds[t][2] != "1d" or kinds[t][1] < 1:
                continue
            sl = draw(st.sampled_from([[None, None, None], [None, 1, None], [None, None, 2]]))
            stmts.append({"k": "setitem", "t": t, "sl": sl, "v": {"lit": float(draw(st.integers(-3, 3)))}})
        elif choice == "fail":
            pool = arrs + [h for h in tens if kinds[h][2] == "1d"]
            if not pool:
                continue
            stmts.append({"k": "fail", "args": [draw(st.sampled_from(pool))], "variant": draw(st.sampled_from(["in", "out"]))})
        elif choice == "backward" and tens:
            stmts.append({"k": "backward", "t": draw(st.sampled_from(tens))})
        elif choice == "clear" and tens:
            stmts.append({"k": "clear", "t": draw(st.sampled_from(tens))})
        elif choice == "drop" and kinds:
            h = draw(st.sampled_from(sorted(kinds)))
            kinds.pop(h)
            stmts.append({"k": "drop", "h": h})
    final = draw(st.lists(st.integers(0, 20), min_size=0, max_size=len(kinds) + 1))
    return {"stmts": stmts, "final_drop": final}


def classify(case):
    labels = set()
    stmts = case["stmts"]
    uses = {}
    nontrivial = False
    kinds = {}
    for s in stmts:
        if s["k"] in ("arr", "npview", "tensor"):
            kinds[s["h"]] = s["k"]
        if s["k"] == "op":
            for a in s["args"]:
                if isinstance(a, int):
                    uses[a] = uses.get(a, 0) + 1
                    if kinds.get(a) == "npview":
                        labels.add("view_enters_op")
                        nontrivial = True
            if s["name"] == "add_out":
                labels.add("out_target")
                if kinds.get(s["out"]) == "npview":
                    labels.add("out_target_is_numpy_view")
                nontrivial = True
            labels.add("op_" + s["name"])
        if s["k"] == "fail":
            labels.add("failing_op")
            nontrivial = True
        if s["k"] in ("backward", "clear", "drop", "setitem"):
            labels.add(s["k"])
    if any(v >= 2 for v in uses.values()):
        labels.add("array_in_>=2_ops")
        nontrivial = True
    return nontrivial, sorted(labels)


N = {"quick": 1500, "thorough": 15000}


def shard_plan(tier):
    return [f"s{i}" for i in range(16)]


def run_shard(shard, seed, tier):
    rec = Recorder()

    def cc(case):
        nt, labels = classify(case)
        rec.note(case["stmts"], nt, labels, sample=case)
        rec.extra["steps"] = rec.extra.get("steps", 0) + len(case["stmts"])
        return check_case(case)

    viol = drive(prop=PROPERTY, name="lock_history", strategy=cases(tier), check_case=cc, rec=rec, seed=seed,
                 max_examples=N[tier])
    out = rec.result()
    out["violations"] = viol
    return out


def replay(check, case):
    return check_case(case)
