"""C05 — gradients flow correctly through in-place updates and views."""

from __future__ import annotations

import numpy as np
from hypothesis import strategies as st

from vf import history, ir
from vf.common import Mismatch, Recorder, drive, fmt_exc, reset_mygrad
from vf.gen import history_program
from vf.checks.c04 import skeleton

PROPERTY = "C05"
RULE = (
    "C04's history vocabulary (views of views, reads before/after, item assignment with basic/advanced/"
    "boolean/repeated indices of every integer dtype and broadcast values that are themselves non-constant "
    "tensors, augmented assignment, mg/np ufunc out= with where= masks, .shape assignment), followed by a "
    "terminal L = sum_i sum(W_i * t_i) over 1-3 drawn live tensors with distinct weights, then L.backward(). "
    "Oracle: for every live tensor, grad == complex-step derivative from the NumPy reference run on the same "
    "statements (leaves perturbed at creation, mutated memory perturbed right after the last write to its "
    "family; views get the view of their owner's gradient; tensors with no differentiable path: None). "
    "Non-trivial = a mutation whose memory family is read both before and after it and whose post-mutation "
    "value reaches L from a non-constant tensor; distinct by statement skeleton."
)
ASSUMPTIONS = [
    "where the reference gradient is identically zero MyGrad may report None or zeros (both mean 'no contribution')",
    "REF derivative via complex-step; values kept below 60 in magnitude by construction",
]


@st.composite
def cases(draw, tier="quick"):
    b = draw(history_program(max_steps=12 if tier == "quick" else 20, max_elems=12,
                             flagged_views="const_only" if draw(st.integers(0, 2)) == 0 else False))
    r = b.ref
    live = [h for h in r.env if r.is_tensor[h] and not r.isint[h] and r.env[h].size > 0]
    nonconst = [h for h in live if not r.const[h]]
    pool = nonconst or live
    k = draw(st.integers(1, min(3, len(pool))))
    chosen = []
    # results that read a memory family *before* it was mutated are where "differentiate through the pre-mutation
    # values" is decided: make sure one of them reaches L in half of the cases
    stmts_ = b.prog["stmts"]
    early = []
    for i, s_ in enumerate(stmts_):
        if s_["k"] == "op" and s_["h"] in pool and r.owner.get(s_["h"]) == s_["h"]:
            fams = {r.owner.get(a) for a in s_["args"]}
            if any(t_["k"] == "inplace" and t_["kind"] != "shape" and r.owner.get(t_["target"]) in fams for t_ in stmts_[i + 1:]):
                early.append(s_["h"])
    if early and draw(st.integers(0, 3)) > 0:
        chosen.append(early[draw(st.integers(0, len(early) - 1))])
    for _ in range(k):
        h = b.pick(pool)
        if h not in chosen:
            chosen.append(h)
    terms = []
    for h in chosen:
        w = b.leaf("array", list(b.shape(h)), lo=-20, hi=20)
        m = b.op("multiply", [h, w])
        s = b.op("sum", [m]) if m is not None else None
        if s is not None:
            terms.append(s)
    if not terms:
        s = b.op("sum", [pool[-1]])
        terms = [s]
    terms = [t for t in terms if t is not None]
    L = terms[0] if len(terms) == 1 else (b.op("add_sequence", terms) if terms else None)
    if L is None:
        # could not build the weighted terminal (values out of range): fall back to any live float tensor
        L = terms[0] if terms else pool[-1]
    return {"prog": b.prog, "L": L}


def classify(prog, L, ref):
    stmts = prog["stmts"]
    labels = set()
    nontrivial = False
    depsL = ref.deps(L)
    # replay structural model incrementally to know owners at each point
    for i, s in enumerate(stmts):
        if s["k"] != "inplace" or s["kind"] == "shape":
            continue
        o = ref.owner[s["target"]]
        fam = {h for h, oo in ref.owner.items() if oo == o}
        before = any(t["k"] == "op" and any(a in fam for a in t["args"]) for t in stmts[:i])
        after = any(t["k"] == "op" and any(a in fam for a in t["args"]) for t in stmts[i + 1:])
        labels.add("mut_" + s["kind"])
        if before and after:
            labels.add("read_before_and_after")
            if any(tok[0] == o and tok[1] >= 1 for tok in depsL):
                nontrivial = True
        if s.get("args") and any(not ref.const[a] for a in s["args"]):
            labels.add("nonconst_value_operand")
        if s["kind"] == "out" and s["p"].get("where") is not None:
            labels.add("where_mask")
        tstmt = next((x for x in stmts if x.get("h") == s["target"]), {})
        if tstmt.get("constant") is True:
            labels.add("write_through_constant_view")
        if s["kind"] == "setitem":
            for c in s["p"]["index"]["c"]:
                if c[0] == "a":
                    labels.add("intidx_" + c[2])
                    if len(set(c[1])) < len(c[1]):
                        labels.add("repeated_index")
                if c[0] == "b":
                    labels.add("bool_index")
    return nontrivial, sorted(labels)


def check_case(case, rec=None, model="memory"):
    """model="memory": the property's reading (a write through a constant-flagged view reaches the base like any
    other write).  model="memory-sever" is only used by the known-finding predicate in vf/known.py."""
    prog, L = case["prog"], case["L"]
    reset_mygrad()
    run, ref, mm = history.run_lockstep(prog, check_each=False, flag_views="memory")
    exp = ir.expected_after_backward(prog, L, flag_views=model)
    if rec is not None:
        nontrivial, labels = classify(prog, L, exp.ref)
        if exp.kinks:
            labels.append("kink")
        rec.note([skeleton(prog), L], nontrivial, labels, sample={"L": L, "stmts": prog["stmts"]})
        rec.extra["complex_ref_runs"] = rec.extra.get("complex_ref_runs", 0) + exp.ncomplex
    if mm is not None:
        return mm
    try:
        run.env[L].backward()
    except Exception as e:  # noqa: BLE001
        return Mismatch("backward_raised", fmt_exc(e))
    return ir.compare_grads(exp, run)


N = {"quick": 900, "thorough": 5400}


def shard_plan(tier):
    return [f"s{i}" for i in range(16)]


def run_shard(shard, seed, tier):
    rec = Recorder()
    viol = drive(prop=PROPERTY, name="inplace_grad", strategy=cases(tier), check_case=lambda c: check_case(c, rec), rec=rec,
                 seed=seed, max_examples=N[tier])
    out = rec.result()
    out["violations"] = viol
    return out


def replay(check, case):
    return check_case(case)
