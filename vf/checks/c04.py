"""C04 — views and in-place updates mirror NumPy's memory semantics."""

from __future__ import annotations

import numpy as np
from hypothesis import strategies as st

from vf import history
from vf.common import Mismatch, Recorder, drive, reset_mygrad
from vf.gen import history_program

PROPERTY = "C04"
RULE = (
    "Histories (2-16 steps over 1-3 leaves, <=16 elements) interleave view-producing ops on any live tensor "
    "(basic indexing with negative/strided steps, newaxis, Ellipsis; reshape/ravel/squeeze/expand_dims/"
    "broadcast_to/transpose/T/swapaxes/moveaxis/atleast_kd/diagonal einsum), non-view reads, and in-place "
    "updates whose target is drawn from all live tensors (bases, views, views of views): item assignment "
    "with basic/advanced/boolean/repeated indices and scalar/array/tensor (possibly overlapping) values, "
    "+= -= *= /= **=, mg/np ufunc out= with optional where=, and .shape assignment; every statement is "
    "validated on NumPy first. Oracle after every statement, for every live tensor: values, shape, dtype, "
    "full pairwise shares_memory matrix vs NumPy mirrors, .base is the model owner's tensor (None for "
    "owners), Python object identity, constant flag. Non-trivial = history with >=1 in-place update on a "
    "memory family of size >=2 followed by >=1 later step; distinct by statement skeleton."
)
ASSUMPTIONS = [
    "leaves own their memory (default copy=True); aliasing through a foreign array is outside the property",
    "view ops are only applied to tensors (a view of a plain ndarray has no owning tensor to report)",
    "size-0 tensors are exempt from the base/sharing clauses (NumPy reports no shared memory for them)",
]


@st.composite
def cases(draw, tier="quick"):
    b = draw(history_program(max_steps=16 if tier == "quick" else 30, flagged_views=draw(st.integers(0, 2)) == 0))
    return {"prog": b.prog}


def classify(prog, ref):
    labels = []
    nmut = 0
    nontrivial = False
    stmts = prog["stmts"]
    fam = {}
    for h, o in ref.owner.items():
        if ref.is_tensor.get(h):
            fam.setdefault(o, []).append(h)
    created = {s["h"]: i for i, s in enumerate(stmts) if "h" in s}
    for i, s in enumerate(stmts):
        if s["k"] != "inplace":
            continue
        nmut += 1
        t = s["target"]
        o = ref.owner[t]
        size_then = sum(1 for h in fam.get(o, []) if created[h] < i)
        if t != o:
            labels.append("mutate_view")
            if stmts[created[t]].get("args", [None])[0] != o:
                labels.append("mutate_view_of_view")
        if size_then >= 2:
            labels.append("mutate_family>=2")
            if i < len(stmts) - 1:
                nontrivial = True
        if s["kind"] == "setitem" and s["args"] and ref.owner.get(s["args"][0]) == o:
            labels.append("overlapping_value")
        if s["kind"] == "out" and s["p"].get("where") is not None:
            labels.append("where_mask")
        labels.append("kind_" + s["kind"])
        if s["kind"] == "out" and s["p"].get("constant") is not None:
            labels.append("out_with_constant_kw")
        if stmts[created[t]].get("constant") is not None:
            labels.append("mutate_flagged_view")
    if nmut >= 2:
        labels.append("mutations>=2")
    if nmut >= 4:
        labels.append("mutations>=4")
    return nontrivial, sorted(set(labels))


def skeleton(prog):
    out = []
    for s in prog["stmts"]:
        if s["k"] == "leaf":
            out.append(["leaf", s["kind"], s["shape"]])
        elif s["k"] == "op":
            out.append([s["op"], s["args"], s.get("p")])
        elif s["k"] == "guard":
            out.append(["guard", s["on"]])
        else:
            out.append([s["k"], s.get("kind"), s.get("op"), s.get("target"), s.get("args"), s.get("p")])
    return out


def check_case(case, rec=None):
    reset_mygrad()
    run, ref, mm = history.run_lockstep(case["prog"], flag_views="memory")
    if rec is not None:
        full = history.ir.RefRun(case["prog"], flag_views="memory").run()
        nontrivial, labels = classify(case["prog"], full)
        rec.note(skeleton(case["prog"]), nontrivial, labels, sample=case["prog"]["stmts"])
        rec.extra["steps"] = rec.extra.get("steps", 0) + len(case["prog"]["stmts"])
    return mm


N = {"quick": 900, "thorough": 8000}


def shard_plan(tier):
    return [f"s{i}" for i in range(16)]


def run_shard(shard, seed, tier):
    rec = Recorder()
    viol = drive(prop=PROPERTY, name="history", strategy=cases(tier), check_case=lambda c: check_case(c, rec), rec=rec,
                 seed=seed, max_examples=N[tier])
    out = rec.result()
    out["violations"] = viol
    return out


def replay(check, case):
    return check_case(case)
