"""C03 — forward results agree with NumPy in value, shape and dtype."""

from __future__ import annotations

import operator

import numpy as np
from hypothesis import strategies as st

from vf import ref as R
from vf.common import Mismatch, Recorder, drive, fmt_exc, reset_mygrad
from vf.gen import draw_axis, draw_basic_index, draw_adv_index, draw_view_params, draw_reduce_params, draw_shape, shape_variant
from vf.ir import apply_layout
from vf.ref import OPS, dec_index

PROPERTY = "C03"
RULE = (
    "Differential check against NumPy's namesake for every registered ufunc (37), every __array_function__ override "
    "that has parameters we can draw (reductions, cumulative ops, shape/view ops, joins, einsum, clip, where, norm, "
    "repeat, roll), Tensor methods and operator dunders incl. reflected (python scalar / ndarray on the left) forms, and "
    "the non-differentiable ufuncs that Tensor.__array_ufunc__ forwards to the wrapped arrays (comparisons, logical_*, "
    "isnan/isfinite/isinf/signbit; floor_divide, remainder, mod, fmod, rint, sign, floor, ceil, trunc on constant tensors) "
    "with the comparison and // operators; `tensor ** c` additionally with scalar exponents -2 .. 3.5 in steps of 1/2 "
    "(the values a short-cut is tempted to special-case) on every base dtype. "
    "Operands: tensors, plain ndarrays, python bool/int/float and NumPy scalars of bool_, int8, int32, int64, uint8, "
    "float16, float32, float64; 0-d, empty, broadcast families, F / negative-stride / sliced / 0-stride / relaxed "
    "layouts; keyword options the MyGrad signature has (axis, keepdims, ddof, where=, dtype=, out=ndarray). Oracle: "
    "NumPy called on the underlying arrays vs MyGrad on the tensors: identical shape, identical dtype, "
    "array_equal(equal_nan); both raising counts as agreement, one raising is a violation; the MyGrad call is "
    "evaluated with tracking on and inside no_autodiff and both must be identical. Non-trivial = an operand that is "
    "not a float64 C-contiguous array, or a non-default keyword; distinct by (function, operand kind/dtype/layout/shape, kwargs)."
)
ASSUMPTIONS = [
    "values are small so that integer overflow / float16 overflow do not dominate; NaN/inf results are compared with equal_nan",
    "unselected elements of a where= call are unspecified in NumPy and are excluded from the comparison",
]

DTYPES = ["bool", "int8", "int32", "int64", "uint8", "float16", "float32", "float64", "float64", "float32"]
UNARY_UFUNCS = ["negative", "positive", "square", "reciprocal", "exp", "exp2", "expm1", "log", "log2", "log10", "log1p",
                "sin", "cos", "tan", "arcsin", "arccos", "arctan", "sinh", "cosh", "tanh", "arcsinh", "arccosh", "arctanh",
                "absolute", "sqrt", "cbrt"]
BINARY_UFUNCS = ["add", "subtract", "multiply", "divide", "power", "maximum", "minimum", "arctan2", "logaddexp", "logaddexp2"]
OPERATORS = {"op_add": operator.add, "op_sub": operator.sub, "op_mul": operator.mul, "op_truediv": operator.truediv,
             "op_pow": operator.pow, "op_matmul": operator.matmul}
# non-differentiable NumPy ufuncs and the operators built on them: evaluated on the wrapped arrays, return ndarrays
# (the second group accepts constant tensors only - that rule is C11's subject; here tensors are made constant)
BOOL_UN = ["isnan", "isfinite", "isinf", "signbit", "logical_not"]
BOOL_BIN = ["equal", "not_equal", "less", "less_equal", "greater", "greater_equal", "logical_and", "logical_or", "logical_xor"]
CONST_UN = ["rint", "sign", "floor", "ceil", "trunc"]
CONST_BIN = ["floor_divide", "remainder", "mod", "fmod"]
NONDIFF_OPERATORS = {"op_eq": operator.eq, "op_ne": operator.ne, "op_lt": operator.lt, "op_le": operator.le,
                     "op_gt": operator.gt, "op_ge": operator.ge, "op_floordiv": operator.floordiv}
NONDIFF = BOOL_UN + BOOL_BIN + CONST_UN + CONST_BIN
REDUCE = ["sum", "mean", "prod", "max", "min", "var", "std"]
VIEWS = ["reshape", "ravel", "squeeze", "expand_dims", "broadcast_to", "transpose", "swapaxes", "moveaxis", "atleast_1d",
         "atleast_2d", "atleast_3d", "getitem", "T", "flatten"]


def _np_call(name, a, p):
    """NumPy's own namesake on plain arrays / scalars"""
    kw = {}
    if p.get("where") is not None:
        kw["where"] = np.array(p["where"], dtype=bool).reshape(p["wshape"])
    if p.get("dtype") is not None:
        kw["dtype"] = p["dtype"]
    if name in UNARY_UFUNCS or name in BINARY_UFUNCS or name == "abs":
        f = getattr(np, name)
        if p.get("out_dtype") is not None:
            kw["out"] = np.zeros(p["out_shape"], dtype=p["out_dtype"])
        return f(*a, **kw)
    if name in OPERATORS:
        return OPERATORS[name](a[0], a[1])
    if name in NONDIFF:
        return getattr(np, name)(*a)
    if name in NONDIFF_OPERATORS:
        if not any(isinstance(x, np.ndarray) for x in a):
            a = [np.asarray(a[0]), a[1]]  # (never reached: one operand is a tensor, i.e. an array on this side)
        return NONDIFF_OPERATORS[name](a[0], a[1])
    if name == "op_neg":
        return -a[0]
    if name == "op_pos":
        return +a[0]
    if name == "matmul":
        return np.matmul(a[0], a[1])
    if name in REDUCE:
        k = {}
        if "axis" in p:
            k["axis"] = tuple(p["axis"]) if isinstance(p["axis"], list) else p["axis"]
        if "keepdims" in p:
            k["keepdims"] = p["keepdims"]
        if "ddof" in p:
            k["ddof"] = p["ddof"]
        if p.get("method"):
            return getattr(np.asarray(a[0]), name)(**k)
        return getattr(np, name)(a[0], **k)
    if name in ("cumsum", "cumprod"):
        return getattr(np, name)(a[0], axis=p["axis"])
    if name == "getitem":
        return np.asarray(a[0])[dec_index(p["index"])]
    if name == "T":
        return np.asarray(a[0]).T
    if name == "flatten":
        return np.asarray(a[0]).flatten()
    if name == "reshape":
        return np.asarray(a[0]).reshape(*p["shape"]) if p.get("method") and p["shape"] else np.reshape(a[0], tuple(p["shape"]))
    if name == "ravel":
        return np.ravel(a[0])
    if name == "squeeze":
        return np.squeeze(a[0], axis=R._ax(p))
    if name == "expand_dims":
        return np.expand_dims(a[0], p["axis"])
    if name == "broadcast_to":
        return np.broadcast_to(a[0], tuple(p["shape"]))
    if name == "transpose":
        return np.transpose(a[0], p.get("axes"))
    if name == "swapaxes":
        return np.swapaxes(a[0], p["a1"], p["a2"])
    if name == "moveaxis":
        return np.moveaxis(a[0], p["src"], p["dst"])
    if name.startswith("atleast_"):
        return getattr(np, name)(a[0])
    if name == "roll":
        return np.roll(a[0], R._ax(p, "shift"), axis=R._ax(p))
    if name == "repeat":
        return np.repeat(a[0], p["repeats"], axis=p["axis"])
    if name == "concatenate":
        return np.concatenate(list(a), axis=p["axis"])
    if name == "stack":
        return np.stack(list(a), axis=p["axis"])
    if name == "einsum":
        return np.einsum(p["subs"], *a)
    if name == "clip":
        return np.clip(a[0], p["lo"], p["hi"])
    if name == "where":
        return np.where(np.array(p["cond"], dtype=bool).reshape(p["cshape"]), a[0], a[1])
    if name == "norm":
        return np.linalg.norm(a[0], ord=R._ord(p), axis=R._ax(p), keepdims=p.get("keepdims", False))
    if name == "sinc":
        return np.sinc(a[0])
    raise KeyError(name)


def _mg_call(mg, name, a, p):
    if name in UNARY_UFUNCS or name in BINARY_UFUNCS or name == "abs":
        kw = {}
        if p.get("where") is not None:
            kw["where"] = np.array(p["where"], dtype=bool).reshape(p["wshape"])
        if p.get("dtype") is not None:
            kw["dtype"] = p["dtype"]
        if p.get("out_dtype") is not None:
            kw["out"] = np.zeros(p["out_shape"], dtype=p["out_dtype"])
        f = getattr(np, name) if p.get("via_np") else getattr(mg, name)
        return f(*a, **kw)
    if name in OPERATORS:
        return OPERATORS[name](a[0], a[1])
    if name in NONDIFF:
        return getattr(np, name)(*a)  # NumPy's function on tensors: Tensor.__array_ufunc__
    if name in NONDIFF_OPERATORS:
        return NONDIFF_OPERATORS[name](a[0], a[1])
    if name == "op_neg":
        return -a[0]
    if name == "op_pos":
        return +a[0]
    if name == "norm" and p.get("via_np"):
        return np.linalg.norm(a[0], ord=R._ord(p), axis=R._ax(p), keepdims=p.get("keepdims", False))
    if p.get("via_np") and name in REDUCE + ["cumsum", "cumprod", "ravel", "squeeze", "expand_dims", "broadcast_to", "transpose",
                                              "swapaxes", "moveaxis", "roll", "repeat", "concatenate", "stack", "clip"]:
        return _np_call(name, a, p)  # numpy's function applied to tensors dispatches to the override
    return OPS[name].mg(mg, a, p, {})


# ------------------------------------------------------------------------------------ generation


def _operand(draw, shape, force_tensor=False, allow_scalar=True):
    kinds = ["tensor", "tensor", "tensor", "array"] + (["pyfloat", "pyint", "pybool", "npscalar"] if allow_scalar else [])
    kind = "tensor" if force_tensor else draw(st.sampled_from(kinds))
    dtype = draw(st.sampled_from(DTYPES))
    if kind in ("pyfloat", "pyint", "pybool"):
        return {"kind": kind, "v": draw(st.integers(0, 4)) if kind != "pybool" else draw(st.integers(0, 1)), "half": draw(st.booleans()),
                "tenth": draw(st.booleans())}  # (+0.1: a python float that float16/float32 cannot represent)
    if kind == "npscalar":
        return {"kind": kind, "dtype": dtype, "v": draw(st.integers(0, 4))}
    n = int(np.prod(shape)) if shape else 1
    vals = draw(st.lists(st.integers(-4, 9), min_size=n, max_size=n))
    layout = draw(st.sampled_from([None, None, None, "F", "neg", "sliced", "bcast", "relaxed", "offset"])) if shape else None
    if layout == "relaxed" and 1 not in shape:
        layout = None
    out = {"kind": kind, "dtype": dtype, "shape": list(shape), "vals": vals, "layout": layout, "half": draw(st.booleans())}
    if draw(st.integers(0, 3)) == 0:
        out["tenth"] = True
    if draw(st.integers(0, 5)) == 0:
        out["scale"] = draw(st.sampled_from([100, 1000, 6000]))  # large magnitudes (float16 accumulators, overflow)
    return out


def _array(o):
    dt = np.dtype(o["dtype"])
    v = np.array(o["vals"], dtype=np.float64)
    if dt.kind == "f":
        a = ((v / 2.0 if o.get("half") else v) * o.get("scale", 1) + (0.1 if o.get("tenth") else 0.0)).astype(dt)
    elif dt.kind == "b":
        a = (v.astype(np.int64) % 2).astype(bool)
    elif dt.kind == "u":
        a = np.abs(v).astype(dt)
    else:
        a = v.astype(dt)
    a = a.reshape(o["shape"])
    if o.get("layout") and a.ndim >= 1 and a.size > 0:
        a = apply_layout(a, o["layout"]) if o["layout"] != "F" else (np.asfortranarray(a) if a.ndim >= 2 else a)
    return a


def build_operand(mg, o):
    """returns (numpy-side operand, mygrad-side operand)"""
    k = o["kind"]
    if k == "pyfloat":
        x = float(o["v"]) + (0.5 if o["half"] else 0.0) + (0.1 if o.get("tenth") else 0.0)
        return x, x
    if k == "pyint":
        return int(o["v"]), int(o["v"])
    if k == "pybool":
        return bool(o["v"]), bool(o["v"])
    if k == "npscalar":
        x = np.dtype(o["dtype"]).type(o["v"])
        return x, x
    a = _array(o)
    if k == "array":
        return a, a
    return a, mg.tensor(a, copy=not (o.get("layout") and a.ndim), constant=o.get("constant"))


def _special_exponent(draw, ops, base):
    """`x ** c` / `power(x, c)` with a scalar exponent from the values an implementation is tempted to special-case
    (Tensor.__pow__ short-cuts 1 and 2): -2 .. 3.5 in steps of 1/2 as a python float, 0 .. 3 as a python int or a NumPy
    scalar; the base is a tensor of any dtype (NumPy promotes with the exponent, a short-cut may not)."""
    k = draw(st.sampled_from(["pyfloat", "pyfloat", "pyint", "npscalar"]))
    if k == "pyfloat":
        ex = {"kind": k, "v": draw(st.integers(-2, 3)), "half": draw(st.booleans()), "tenth": False, "special": True}
    elif k == "pyint":
        ex = {"kind": k, "v": draw(st.integers(0, 3)), "half": False, "tenth": False}
    else:
        ex = {"kind": k, "dtype": draw(st.sampled_from(["float32", "float64", "int64", "float16"])), "v": draw(st.integers(0, 3))}
    if "shape" not in ops[0]:
        ops[0] = _operand(draw, base, force_tensor=True)
    ops[0]["kind"] = "tensor"
    ops[1] = ex


@st.composite
def cases(draw):
    fam = draw(st.sampled_from(["unary", "unary", "binary", "binary", "binary", "operator", "operator", "reduce", "reduce", "cum",
                                "view", "view", "shape", "join", "misc", "nondiff", "nondiff"]))
    base = draw_shape(draw, max_ndim=3, max_side=3, cap=18, min_side=0 if draw(st.integers(0, 9)) == 0 else 1)
    p = {}
    ops = []
    if fam == "unary":
        name = draw(st.sampled_from(UNARY_UFUNCS + ["abs", "sinc", "op_neg", "op_pos"]))
        ops = [_operand(draw, base, force_tensor=name in ("op_neg", "op_pos") or draw(st.integers(0, 3)) > 0, allow_scalar=name not in ("op_neg", "op_pos"))]
        if name in UNARY_UFUNCS + ["abs"]:
            _ufunc_opts(draw, p, [base])
    elif fam == "binary":
        name = draw(st.sampled_from(BINARY_UFUNCS + ["matmul"]))
        if name == "matmul":
            k = draw(st.integers(1, 3))
            s1 = draw(st.sampled_from([[k], [2, k], [1, 2, k]]))
            s2 = draw(st.sampled_from([[k], [k, 2], [k, 1]]))
            ops = [_operand(draw, s1, allow_scalar=False), _operand(draw, s2, allow_scalar=False)]
        else:
            ops = [_operand(draw, base), _operand(draw, shape_variant(draw, base))]
            if draw(st.booleans()):
                ops = ops[::-1]
            shapes = [o.get("shape", []) for o in ops]
            _ufunc_opts(draw, p, shapes)
        if not any(o["kind"] == "tensor" for o in ops) and draw(st.integers(0, 3)) > 0:
            cand = [i for i, o in enumerate(ops) if "shape" in o]
            if cand:
                ops[cand[0]]["kind"] = "tensor"
    elif fam == "operator":
        name = draw(st.sampled_from(sorted(OPERATORS) + ["op_pow", "op_pow"]))
        if name == "op_matmul":
            k = draw(st.integers(1, 3))
            ops = [_operand(draw, draw(st.sampled_from([[k], [2, k]])), allow_scalar=False),
                   _operand(draw, draw(st.sampled_from([[k], [k, 2]])), allow_scalar=False)]
        else:
            ops = [_operand(draw, base), _operand(draw, shape_variant(draw, base))]
            if draw(st.booleans()):
                ops = ops[::-1]
        # operators need a tensor operand
        if not any(o["kind"] == "tensor" for o in ops):
            cand = [i for i, o in enumerate(ops) if "shape" in o]
            if cand:
                ops[cand[0]]["kind"] = "tensor"
            else:
                ops[0] = _operand(draw, base, force_tensor=True)
        if name == "op_pow" and draw(st.integers(0, 2)) > 0:
            _special_exponent(draw, ops, base)
    elif fam == "nondiff":
        name = draw(st.sampled_from(NONDIFF + sorted(NONDIFF_OPERATORS) * 2))
        if name in BOOL_UN + CONST_UN:
            ops = [_operand(draw, base, force_tensor=True)]
        else:
            ops = [_operand(draw, base), _operand(draw, shape_variant(draw, base))]
            if draw(st.booleans()):
                ops = ops[::-1]
            if not any(o["kind"] == "tensor" for o in ops):
                cand = [i for i, o in enumerate(ops) if "shape" in o]
                if cand:
                    ops[cand[0]]["kind"] = "tensor"
                else:
                    ops[0] = _operand(draw, base, force_tensor=True)
        sc = [o for o in ops if o["kind"] == "pyfloat" and not o.get("special")]
        tn = [o for o in ops if o["kind"] == "tensor" and o.get("vals")]
        if sc and tn and draw(st.booleans()):
            # a python float that low-precision floats cannot represent, equal (as a decimal) to an element of the
            # tensor: the comparison then depends on whether the scalar is weakly typed (NEP 50) as it is for NumPy
            tn[0].update(tenth=True, half=False)
            tn[0].pop("scale", None)
            tn[0]["vals"] = [abs(v) % 5 for v in tn[0]["vals"]]
            sc[0].update(tenth=True, half=False, v=tn[0]["vals"][0])
        const_only = name in CONST_UN + CONST_BIN + ["op_floordiv"]
        for o in ops:
            if o["kind"] == "tensor":
                # (floor_divide & co. refuse non-constant tensors by design; comparisons take either)
                o["constant"] = True if const_only else draw(st.sampled_from([None, True]))
    elif fam == "reduce":
        name = draw(st.sampled_from(REDUCE))
        ops = [_operand(draw, base, allow_scalar=False)]
        if draw(st.integers(0, 3)) == 0:
            # low-precision operand with large magnitudes: exposes the accumulator dtype of the reduction
            ops[0].update(dtype=draw(st.sampled_from(["float16", "float16", "float32"])), scale=draw(st.sampled_from([1000, 6000])),
                          vals=[abs(v) + 1 for v in ops[0]["vals"]])
        p = draw_reduce_params(draw, name, base) or {}
        if p.get("method") and ops[0]["kind"] != "tensor":
            p.pop("method")
    elif fam == "cum":
        name = draw(st.sampled_from(["cumsum", "cumprod"]))
        ops = [_operand(draw, base, allow_scalar=False)]
        nd = len(base)
        p = {"axis": None if nd == 0 or draw(st.integers(0, 3)) == 0 else draw(st.integers(-nd, nd - 1))}
    elif fam == "view":
        name = draw(st.sampled_from(VIEWS))
        ops = [_operand(draw, base, force_tensor=name in ("getitem", "T", "flatten") or draw(st.booleans()), allow_scalar=False)]
        if name == "getitem":
            if len(base) and int(np.prod(base)) and draw(st.booleans()):
                idx, _ = draw_adv_index(draw, base)
            else:
                idx = draw_basic_index(draw, base, nonempty=False)
            p = {"index": idx}
        elif name in ("T", "flatten"):
            p = {}
        else:
            p = draw_view_params(draw, name, base)
            if p is None:
                name, p = "ravel", {}
            if p.get("method") and ops[0]["kind"] != "tensor":
                p.pop("method")
    elif fam == "shape":
        name = draw(st.sampled_from(["roll", "repeat", "clip", "where", "norm"]))
        ops = [_operand(draw, base, allow_scalar=False)]
        nd = len(base)
        if name == "roll":
            p = {"shift": draw(st.integers(-3, 3)), "axis": None if nd == 0 or draw(st.booleans()) else draw(st.integers(-nd, nd - 1))}
        elif name == "repeat":
            p = {"repeats": draw(st.integers(0, 2)), "axis": None if nd == 0 or draw(st.booleans()) else draw(st.integers(-nd, nd - 1))}
        elif name == "clip":
            p = {"lo": draw(st.sampled_from([None, 0, 1, 0.5])), "hi": draw(st.sampled_from([None, 2, 3, 2.5]))}
            if p["lo"] is None and p["hi"] is None:
                p["lo"] = 1
        elif name == "where":
            ops.append(_operand(draw, base, allow_scalar=True))
            n = int(np.prod(base)) if base else 1
            p = {"cond": draw(st.lists(st.booleans(), min_size=n, max_size=n)), "cshape": list(base)}
        else:
            if nd == 0 or 0 in base:
                # (vector norms of empty operands: numpy special-cases them; not documented for mygrad - excluded)
                name, p = "ravel", {}
            else:
                o = draw(st.sampled_from([None, 1, 2, 3, "inf", "-inf"]))
                ax = draw(st.integers(-nd, nd - 1)) if (nd > 1 or draw(st.booleans())) else None
                p = {"ord": o, "axis": ax, "keepdims": draw(st.booleans())}
    elif fam == "join":
        name = draw(st.sampled_from(["concatenate", "stack", "einsum"]))
        nd = len(base)
        if name == "einsum":
            if nd == 0 or nd > 3:
                base = [2, 2]
                nd = 2
            from vf.gen import EINSUM_1

            ops = [_operand(draw, base, allow_scalar=False)]
            p = {"subs": draw(st.sampled_from(EINSUM_1[nd]))}
        else:
            k = draw(st.integers(1, 3))
            ops = [_operand(draw, base, allow_scalar=False) for _ in range(k)]
            if name == "concatenate":
                if nd == 0:
                    name = "stack"
                    p = {"axis": 0}
                else:
                    p = {"axis": draw(st.integers(-nd, nd - 1))}
            if name == "stack":
                p = {"axis": draw(st.integers(-nd - 1, nd))}
    else:
        name = draw(st.sampled_from(["sinc", "abs", "absolute"]))
        ops = [_operand(draw, base)]
    if draw(st.integers(0, 4)) == 0:
        p["via_np"] = True
    return {"name": name, "ops": ops, "p": p}


def _ufunc_opts(draw, p, shapes):
    r = draw(st.integers(0, 9))
    try:
        shape = list(np.broadcast_shapes(*[tuple(s) for s in shapes]))
    except ValueError:
        return
    if r in (0, 1):
        k = draw(st.integers(0, len(shape)))
        wshape = [1 if draw(st.integers(0, 4)) == 0 else x for x in shape[k:]]
        n = int(np.prod(wshape)) if wshape else 1
        p["where"] = draw(st.lists(st.booleans(), min_size=n, max_size=n))
        p["wshape"] = wshape
        p["vmask_shape"] = shape
    if r in (1, 2, 3):
        p["dtype"] = draw(st.sampled_from(["float32", "float64", "float16", "int64"]))
    if r == 4:
        p["out_dtype"] = draw(st.sampled_from(["float64", "float32"]))
        p["out_shape"] = shape


def _same(a, b, p):
    """a: numpy result, b: mygrad result (Tensor / ndarray / scalar)"""
    bd = b.data if type(b).__name__ == "Tensor" else np.asarray(b)
    ad = np.asarray(a)
    if ad.shape != bd.shape:
        return f"shape {bd.shape} vs numpy {ad.shape}"
    if ad.dtype != bd.dtype:
        return f"dtype {bd.dtype} vs numpy {ad.dtype}"
    if p.get("where") is not None and p.get("out_dtype") is None:
        m = np.broadcast_to(np.array(p["where"], dtype=bool).reshape(p["wshape"]), ad.shape)
        ad, bd = ad[m], bd[m]
    if not np.array_equal(ad, bd, equal_nan=True):
        return f"values {bd.ravel()[:5].tolist()} vs numpy {ad.ravel()[:5].tolist()}"
    return None


def check_case(case, rec=None):
    import mygrad as mg

    reset_mygrad()
    name, p = case["name"], case["p"]
    pairs = [build_operand(mg, o) for o in case["ops"]]
    np_args = [x for x, _ in pairs]
    mg_args = [y for _, y in pairs]
    if rec is not None:
        nt = bool({k for k in p if k not in ("vmask_shape",)}) or any(
            o["kind"] != "tensor" or o.get("dtype") != "float64" or o.get("layout") or len(o.get("shape", [])) == 0
            or 0 in o.get("shape", [1]) for o in case["ops"])
        labels = ["fn=" + name] + sorted({"kind_" + o["kind"] for o in case["ops"]}) + sorted(
            {"dtype_" + o["dtype"] for o in case["ops"] if "dtype" in o})
        key = [name, [(o["kind"], o.get("dtype"), o.get("shape"), o.get("layout")) for o in case["ops"]],
               {k: v for k, v in p.items() if k not in ("where", "cond")}]
        rec.note(key, nt, labels, sample=case)
    with np.errstate(all="ignore"):
        try:
            want = _np_call(name, np_args, p)
            np_err = None
        except Exception as e:  # noqa: BLE001
            want, np_err = None, e
        try:
            got = _mg_call(mg, name, mg_args, p)
            mg_err = None
        except RecursionError as e:
            return Mismatch("mygrad_raised", f"{name}: RecursionError")
        except Exception as e:  # noqa: BLE001
            got, mg_err = None, e
        if np_err is not None and mg_err is not None:
            if rec is not None:
                rec.label("both_raise")
            return None
        if np_err is not None:
            return Mismatch("numpy_raises_mygrad_accepts", f"{name}: numpy raised {fmt_exc(np_err)[:120]} but mygrad returned a result")
        if mg_err is not None:
            return Mismatch("mygrad_raised", f"{name}: mygrad raised {fmt_exc(mg_err)[:160]} where numpy returns dtype {np.asarray(want).dtype}")
        d = _same(want, got, p)
        if d is not None:
            return Mismatch("differs_from_numpy", f"{name}: {d}")
        # same values whether or not graph tracking is enabled
        pairs2 = [build_operand(mg, o) for o in case["ops"]]
        try:
            with mg.no_autodiff:
                got2 = _mg_call(mg, name, [y for _, y in pairs2], p)
        except Exception as e:  # noqa: BLE001
            return Mismatch("untracked_raised", f"{name}: inside no_autodiff: {fmt_exc(e)[:160]}")
        d = _same(want, got2, p)
        if d is not None:
            return Mismatch("untracked_differs", f"{name} inside no_autodiff: {d}")
    return None


N = {"quick": 3000, "thorough": 50000}


def shard_plan(tier):
    return [f"s{i}" for i in range(16)]


def run_shard(shard, seed, tier):
    rec = Recorder()
    viol = drive(prop=PROPERTY, name="numpy_parity", strategy=cases(), check_case=lambda c: check_case(c, rec), rec=rec,
                 seed=seed, max_examples=N[tier])
    out = rec.result()
    out["violations"] = viol
    return out


def replay(check, case):
    return check_case(case)
