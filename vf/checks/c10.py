"""C10 — constant semantics: constants never receive or transmit gradients."""

from __future__ import annotations

import numpy as np
from hypothesis import strategies as st

from vf import ir
from vf.common import Mismatch, Recorder, drive, fmt_exc, reset_mygrad
from vf.gen import functional_program
from vf.checks.c01 import _skeleton, ancestors

PROPERTY = "C10"
RULE = (
    "C01-style DAG programs with an independent flag assignment: leaves drawn from {float tensor default / "
    "constant=True, int tensor, ndarray, int ndarray, python float/int scalar}, every function-spelled op gets "
    "constant in {None x4, True, False}, view ops may be forced constant. Oracles: (a) flag model - requesting "
    "constant=False for integer/boolean data raises ValueError (direct probes per case), otherwise "
    "result.constant == explicit flag if given else (all inputs constant); (b) after backward constants, arrays "
    "and scalars hold no gradient and every other gradient equals the complex-step reference with stop-gradients "
    "at constants; (c) metamorphic: the same program with every constant tensor leaf replaced by the plain "
    "ndarray gives bit-identical gradients for all remaining tensors. Non-trivial = >=1 constant tensor leaf or "
    "explicit constant= on an op, together with >=1 non-constant leaf upstream of L; distinct by skeleton+flags."
)
ASSUMPTIONS = ["in-place targets keeping their flag is asserted by C04/C05's histories (constant leaves are targets there)"]


@st.composite
def cases(draw):
    if draw(st.integers(0, 3)) == 0:
        # one operation on leaves of every kind in every position (each registered op gets its turn, which the DAG
        # programs cannot guarantee): the flag rule and the no-gradient rule per operation
        from vf.checks import c02

        c = draw(c02.cases(flags=True))
        return {"prog": c["prog"], "L": c["L"], "probe": draw(st.sampled_from(["tensor_int", "tensor_bool", "op_int", "astensor_int",
                                                                                "Tensor_int"])), "one_op": c["op"]}
    kinds = ["var", "var", "var", "const", "const", "array", "scalar", "intarray", "inttensor", "intscalar"]
    b = draw(functional_program(max_ops=10, min_ops=2, allow_const_flag=True, allow_const_view=True,
                                leaf_kinds=kinds, const_flag_odds=5, allow_const_false=True))
    r = b.ref
    tens = [h for h in r.env if r.is_tensor[h] and not r.isint[h]]
    nonconst = [h for h in tens if not r.const[h]]
    pool = nonconst if nonconst and draw(st.integers(0, 5)) > 0 else (tens or list(r.env))
    ranked = sorted(pool, key=lambda h: -len(ancestors(b.prog, h)[0]))
    L = ranked[draw(st.integers(0, min(2, len(ranked) - 1)))]
    probe = draw(st.sampled_from(["tensor_int", "tensor_bool", "op_int", "astensor_int", "Tensor_int"]))
    return {"prog": b.prog, "L": L, "probe": probe}


def _probe(mg, kind):
    """constant=False must be refused for integer/boolean data."""
    try:
        if kind == "tensor_int":
            mg.tensor([1, 2, 3], constant=False)
        elif kind == "tensor_bool":
            mg.tensor([True, False], constant=False)
        elif kind == "Tensor_int":
            mg.Tensor(np.arange(3), constant=False)
        elif kind == "astensor_int":
            mg.astensor(np.arange(3, dtype=np.int8), constant=False)
        else:
            mg.add(mg.tensor([1, 2]), np.array([3, 4]), constant=False)
    except ValueError:
        return None
    except Exception as e:  # noqa: BLE001
        return Mismatch("probe_wrong_exception", f"{kind}: {fmt_exc(e)}")
    return Mismatch("probe_accepted", f"{kind}: constant=False accepted for integer/boolean data")


def swap_const_leaves(prog):
    out = []
    for s in prog["stmts"]:
        if s["k"] == "leaf" and s["kind"] == "const":
            s = dict(s, kind="array")
        elif s["k"] == "leaf" and s["kind"] == "inttensor":
            s = dict(s, kind="intarray")
        out.append(s)
    return {"stmts": out}


TENSOR_ONLY = {"getitem", "T", "flatten"}


def swap_applicable(prog, L):
    """The swapped program must still be expressible: tensor-only spellings (methods, indexing, operators whose
    operands would all be plain arrays) cannot take an ndarray in place of the constant tensor."""
    swapped = {s["h"] for s in prog["stmts"] if s["k"] == "leaf" and s["kind"] in ("const", "inttensor")}
    if L in swapped:
        return False
    non_tensor = {s["h"] for s in prog["stmts"] if s["k"] == "leaf" and s["kind"] not in ("var",)}
    for s in prog["stmts"]:
        if s["k"] != "op":
            continue
        touched = [a for a in s["args"] if a in swapped]
        if not touched:
            continue
        if s["op"] in TENSOR_ONLY or s.get("p", {}).get("method"):
            return False
        if s["op"].startswith("op_") and all(a in non_tensor for a in s["args"]):
            return False
    return True


def check_case(case, rec=None):
    prog, L = case["prog"], case["L"]
    reset_mygrad()
    run = ir.MgRun(prog).run()
    mg = run.mg
    mm = _probe(mg, case["probe"])
    if mm is not None:
        return mm
    if run.error is not None:
        return Mismatch("raised", f"stmt {run.error_idx}: {fmt_exc(run.error)}")
    exp = ir.expected_after_backward(prog, L)
    ref = exp.ref
    if rec is not None:
        anc, by_h = ancestors(prog, L)
        const_leaf = any(s["k"] == "leaf" and s["kind"] in ("const", "inttensor") for s in prog["stmts"])
        flagged = [s for s in prog["stmts"] if s["k"] == "op" and s.get("constant") is not None]
        nonconst_leaf = any(by_h[h]["k"] == "leaf" and not ref.const[h] and ref.is_tensor[h] for h in anc)
        labels = []
        if const_leaf:
            labels.append("const_tensor_leaf")
        if any(s["constant"] is True for s in flagged):
            labels.append("op_constant=True")
        if any(s["constant"] is False for s in flagged):
            labels.append("op_constant=False")
        if any(s["constant"] is True and ir.OPS[s["op"]].view for s in flagged):
            labels.append("constant_view_op")
        rec.note([_skeleton(prog), L], (const_leaf or bool(flagged)) and nonconst_leaf, labels,
                 sample={"L": L, "stmts": prog["stmts"]})
    # (a) flag model
    for h, t in run.env.items():
        if isinstance(t, mg.Tensor) and t.constant is not bool(ref.const[h]):
            return Mismatch("flag_model", f"h{h}.constant={t.constant}, expected {bool(ref.const[h])}", h=h)
    # (b)
    try:
        run.env[L].backward()
    except Exception as e:  # noqa: BLE001
        return Mismatch("backward_raised", fmt_exc(e))
    for h, t in run.env.items():
        if isinstance(t, mg.Tensor) and t.constant and t.grad is not None:
            return Mismatch("constant_has_grad", f"h{h} is constant but .grad is {np.asarray(t.grad).tolist()!r}"[:200], h=h)
        if not isinstance(t, mg.Tensor) and getattr(t, "grad", None) is not None:
            return Mismatch("non_tensor_has_grad", f"h{h}")
    mm = ir.compare_grads(exp, run)
    if mm is not None:
        return mm
    # (c) constants replaced by plain arrays
    if not swap_applicable(prog, L):
        if rec is not None:
            rec.label("swap_not_applicable")
        return None
    prog2 = swap_const_leaves(prog)
    reset_mygrad()
    run2 = ir.MgRun(prog2).run()
    if run2.error is not None:
        return Mismatch("raised_swapped", f"stmt {run2.error_idx}: {fmt_exc(run2.error)}")
    try:
        run2.env[L].backward()
    except Exception as e:  # noqa: BLE001
        return Mismatch("backward_raised_swapped", fmt_exc(e))
    for h, t in run.env.items():
        t2 = run2.env[h]
        if not isinstance(t, mg.Tensor) or not isinstance(t2, mg.Tensor):
            continue
        if t.constant is not t2.constant:
            return Mismatch("swap_flag", f"h{h}: constant flag changes when constant tensors are replaced by arrays", h=h)
        g1, g2 = t.grad, t2.grad
        if (g1 is None) != (g2 is None) or (g1 is not None and not np.array_equal(g1, g2, equal_nan=True)):
            return Mismatch("swap_grad", f"h{h}: gradient changes when constant tensors are replaced by arrays", h=h)
    return None


N = {"quick": 900, "thorough": 10000}


def shard_plan(tier):
    return [f"s{i}" for i in range(16)]


def run_shard(shard, seed, tier):
    rec = Recorder()
    viol = drive(prop=PROPERTY, name="const_flags", strategy=cases(), check_case=lambda c: check_case(c, rec), rec=rec,
                 seed=seed, max_examples=N[tier])
    out = rec.result()
    out["violations"] = viol
    return out


def replay(check, case):
    return check_case(case)
