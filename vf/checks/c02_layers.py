"""One-layer programs for the nnet layers and losses (shared by C02's VJP oracle)."""

from __future__ import annotations

import numpy as np
from hypothesis import strategies as st

from vf import layers_ref  # noqa: F401  (registers the layer ops)
from vf.common import drive
from vf.gen import Builder

LAYER_NAMES = ["conv_nd", "max_pool", "batchnorm", "gru", "softmax_crossentropy", "negative_log_likelihood",
               "multiclass_hinge", "margin_ranking_loss", "focal_loss", "softmax_focal_loss"]
LAYOUTS = [None, None, None, "F", "neg", "sliced", "offset"]


def _kind(draw, first=False):
    return "var" if first else draw(st.sampled_from(["var", "var", "var", "const", "array"]))


def _leaf(b, draw, shape, first=False, lo=-40, hi=40, dtype="float64"):
    kind = _kind(draw, first)
    layout = draw(st.sampled_from(LAYOUTS)) if len(shape) >= 1 and int(np.prod(shape)) > 0 else None
    return b.leaf(kind, list(shape), layout=layout, lo=lo, hi=hi, dtype=dtype)


def _dims(draw, nsp):
    """valid (X, W, s, p, d) per spatial axis by construction"""
    out = []
    for _ in range(nsp):
        W = draw(st.integers(1, 3))
        d = draw(st.sampled_from([1, 1, 2, 3]))
        s = draw(st.integers(1, 3))
        p = draw(st.sampled_from([0, 0, 1, 2]))
        G = draw(st.integers(1, 3))
        ext = (W - 1) * d + 1
        X = (G - 1) * s + ext - 2 * p
        while X < 1:
            p -= 1
            X = (G - 1) * s + ext - 2 * p
        out.append((X, W, s, p, d))
    return out


def _ints(draw, vals, allow_scalar=True):
    """spell a per-axis option as an int (if uniform) or a tuple"""
    if allow_scalar and len(set(vals)) == 1 and draw(st.booleans()):
        return int(vals[0])
    return [int(v) for v in vals]


@st.composite
def layer_cases(draw, names=None):
    from vf.checks.c02 import _seed

    name = draw(st.sampled_from(names or LAYER_NAMES))
    b = Builder(draw, max_elems=200, allow_int=False)
    b.allow_empty = False
    d = draw
    h = None
    if name == "conv_nd":
        nsp = d(st.sampled_from([1, 1, 2, 2, 3]))
        dims = _dims(d, nsp)
        N, C, F = d(st.integers(1, 2)), d(st.integers(1, 2)), d(st.integers(1, 2))
        if N * C * int(np.prod([x[0] for x in dims])) > 24:
            N = C = 1
        while len(dims) > 1 and int(np.prod([x[0] for x in dims])) > 250:
            dims = dims[:-1]  # (keeps the exact-derivative reference within its element budget)
        x = _leaf(b, d, [N, C] + [t[0] for t in dims], first=True)
        w = _leaf(b, d, [F, C] + [t[1] for t in dims])
        p = {"stride": _ints(d, [t[2] for t in dims]), "padding": _ints(d, [t[3] for t in dims]),
             "dilation": _ints(d, [t[4] for t in dims])}
        h = b.op("conv_nd", [x, w], p)
    elif name == "max_pool":
        npool = d(st.integers(1, 2))
        lead = d(st.lists(st.integers(1, 2), min_size=0, max_size=2))
        dims = []
        for _ in range(npool):
            P, s, G = d(st.integers(1, 3)), d(st.integers(1, 3)), d(st.integers(1, 3))
            dims.append(((G - 1) * s + P, P, s))
        x = _leaf(b, d, lead + [t[0] for t in dims], first=True)
        h = b.op("max_pool", [x], {"pool": [t[1] for t in dims], "stride": _ints(d, [t[2] for t in dims])})
    elif name == "batchnorm":
        nd = d(st.integers(2, 4))
        shape = [d(st.integers(2, 3)), d(st.integers(1, 3))] + [d(st.integers(1, 2)) for _ in range(nd - 2)]
        x = _leaf(b, d, shape, first=True)
        args = [x]
        p = {"gamma": d(st.booleans()), "beta": d(st.booleans()), "eps": d(st.sampled_from([0.1, 1e-3, 1e-8, 1.0]))}
        if p["gamma"]:
            args.append(_leaf(b, d, [shape[1]]))
        if p["beta"]:
            args.append(_leaf(b, d, [shape[1]]))
        h = b.op("batchnorm", args, p)
    elif name == "gru":
        T, N, C, D = d(st.integers(1, 3)), d(st.integers(1, 2)), d(st.integers(1, 2)), d(st.integers(1, 3))
        args = [_leaf(b, d, [T, N, C], first=True, lo=-16, hi=16)]
        mixed = d(st.integers(0, 2)) == 0  # parameters of individually drawn precision (each gradient keeps its own dtype)
        for _ in range(3):
            dts = [d(st.sampled_from(["float64", "float32"])) if mixed else "float64" for _ in range(3)]
            args += [_leaf(b, d, [C, D], lo=-16, hi=16, dtype=dts[0]), _leaf(b, d, [D, D], lo=-16, hi=16, dtype=dts[1]),
                     _leaf(b, d, [D], lo=-16, hi=16, dtype=dts[2])]
        if d(st.booleans()):
            # (gru documents/raises: the seed state must not be a non-constant tensor)
            args.append(b.leaf(d(st.sampled_from(["const", "array"])), [N, D], lo=-16, hi=16))
        h = b.op("gru", args, {})
    elif name in ("softmax_crossentropy", "multiclass_hinge", "softmax_focal_loss", "focal_loss", "negative_log_likelihood"):
        N, C = d(st.integers(1, 3)), d(st.integers(1, 4))
        x = _leaf(b, d, [N, C], first=True, lo=-32, hi=32)
        y = d(st.lists(st.integers(0, C - 1), min_size=N, max_size=N))
        p = {"y": y, "ydtype": d(st.sampled_from(["int64", "int32", "uint8"]))}
        if name in ("multiclass_hinge", "softmax_crossentropy") and d(st.integers(0, 2)) == 0:
            p["ytensor"] = True  # labels handed over as an integer tensor
        if name == "multiclass_hinge":
            p["hinge"] = d(st.sampled_from([1.0, 0.5, 2.0]))
            h = b.op(name, [x], p)
        elif name in ("softmax_focal_loss", "focal_loss"):
            p["alpha"] = d(st.sampled_from([1, 0.5, 2.0]))
            p["gamma"] = d(st.sampled_from([0, 1, 2, 0.5]))
            if name == "focal_loss":
                x = b.op("softmax", [x], {"axis": -1})
            h = b.op(name, [x], p) if x is not None else None
        elif name == "negative_log_likelihood":
            x2 = b.op("logsoftmax", [x], {"axis": -1}) if d(st.booleans()) else x
            args = [x2]
            if d(st.booleans()):
                args.append(b.leaf("array", [C], lo=1, hi=40))
            h = b.op(name, args, p)
        else:
            h = b.op(name, [x], p)
    else:  # margin_ranking_loss
        N = d(st.integers(1, 4))
        shape = [N] if d(st.booleans()) else [N, d(st.integers(1, 3))]
        x1 = _leaf(b, d, shape, first=True)
        x2 = _leaf(b, d, shape)
        y = d(st.sampled_from([1, -1])) if d(st.booleans()) else d(st.lists(st.sampled_from([1, -1]), min_size=N, max_size=N))
        h = b.op(name, [x1, x2], {"y": y, "margin": d(st.sampled_from([0.0, 0.5, 1.0, 2.0]))})
    if h is None:
        x = b.leaf("var", [2])
        h = b.op("negative", [x])
        name = "(fallback)"
    seed = _seed(draw, b.shape(h))
    return {"prog": b.prog, "L": h, "seed": seed, "op": name}


def check_case(case, rec=None):
    from vf.checks import c02

    if rec is not None and rec.evaluations % 8 == 0:
        # the naive layer references must themselves be differentiated correctly by complex-step
        c02.ref_selftest(case)
        rec.label("ref_selftest")
    return c02.check_case(case, rec)


N = {"quick": 130, "thorough": 1200}


def run(rec, seed, tier):
    return drive(prop="C02", name="layer_vjp", strategy=layer_cases(), check_case=lambda c: check_case(c, rec), rec=rec,
                 seed=seed, max_examples=N[tier])
