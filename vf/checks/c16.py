"""C16 — nnet layers equal their documented equations for every valid configuration."""

from __future__ import annotations

import itertools
from numbers import Integral

import numpy as np
from hypothesis import strategies as st

from vf import layers_ref as LR
from vf.common import Mismatch, Recorder, drive, fmt_exc, reset_mygrad
from vf.ir import apply_layout

PROPERTY = "C16"
RULE = (
    "Configurations are drawn from the specification's validity predicate, valid and invalid alike (nothing is "
    "filtered to what the implementation accepts). sliding_window_view: arrays of ndim 1-4 in 8 real dtypes and C / F "
    "/ sliced / 0-stride / relaxed-stride / offset layouts, window/step/dilation as ints, tuples, lists, NumPy ints, "
    "plus zero / negative / over-long / float values; oracle: accepted <=> {window a sequence of positive ints no "
    "longer than ndim, steps positive, each w <= size, and with a dilation each w*d <= size}, out[g..,n..,w..] == "
    "arr[n.., g*s + w*d] by brute force, the view is read-only and its byte bounds lie inside its owning buffer. "
    "conv_nd (1-3-D) and max_pool with every combination of batch/channel/spatial sizes, kernel, stride, padding and "
    "dilation: valid <=> every placement inside the padded data and (X+2p-((W-1)d+1)) % s == 0 (pool: (X-P) % S == "
    "0); valid => result equals the naive nested-loop evaluation (<= 1e-10), invalid => an exception. batchnorm, gru "
    "(dropout 0), softmax/logsoftmax (axis None/int/tuple) and the six losses equal their naive formulas. The "
    "shards 'enum*' enumerate exhaustively all 1-D conv/pool configurations with size <= 8 (quick) and additionally "
    "all 2-D ones with sides <= 4 (thorough). Non-trivial = stride > 1 or dilation > 1 or padding > 0 or a rejected "
    "configuration or a non-canonical layout; distinct by configuration."
)
ASSUMPTIONS = [
    "where the specification is silent (len(step) != len(window), window given as a bare int) either outcome is accepted provided an accepted call satisfies the formula",
    "forward values of every layer are additionally compared by C02's layer shards together with their gradients",
]
EXHAUSTIVE_NOTE = "all 1-D conv_nd / max_pool configurations with X<=8 (W<=8, s<=4, p<=3, d<=4) and all 2-D ones with sides<=4 (s<=3, p<=2, d<=3) enumerated completely in the thorough tier (1-D also in quick)"

DT = ["float64", "float64", "float32", "float16", "int8", "int32", "int64", "uint8", "bool"]


# ------------------------------------------------------------------------------------ sliding_window_view
@st.composite
def swv_cases(draw):
    nd = draw(st.integers(1, 4))
    shape = [draw(st.integers(1, 5)) for _ in range(nd)]
    while int(np.prod(shape)) > 120:
        shape[shape.index(max(shape))] -= 1
    k = draw(st.integers(1, nd))
    if draw(st.integers(0, 14)) == 0:
        k = nd + 1  # over-long window
    def val(lo_ok, size):
        r = draw(st.integers(0, 19))
        if r == 0:
            return 0
        if r == 1:
            return -1
        if r == 2:
            return size + draw(st.integers(1, 2))
        if r == 3:
            return 1.5
        return draw(st.integers(1, max(1, size)))
    tail = ([1] * 5 + shape)[-k:] if k <= nd else [1] + shape
    window = [val(True, s) for s in tail]
    step_kind = draw(st.sampled_from(["int", "int", "seq", "seq", "bad_len"]))
    if step_kind == "int":
        step = draw(st.sampled_from([1, 1, 2, 3, 0, -1, 2.0]))
    else:
        n = len(window) if step_kind == "seq" else len(window) + 1
        step = [draw(st.sampled_from([1, 1, 2, 3, 0])) for _ in range(n)]
    dil_kind = draw(st.sampled_from(["none", "none", "int", "seq", "seq"]))
    if dil_kind == "none":
        dil = None
    elif dil_kind == "int":
        dil = draw(st.sampled_from([1, 2, 2, 3, 0, -1]))
    else:
        dil = [draw(st.sampled_from([1, 1, 2, 3, 7, 0])) for _ in range(len(window))]
    return {"shape": shape, "dtype": draw(st.sampled_from(DT)), "layout": draw(st.sampled_from([None, None, "F", "neg", "sliced", "bcast", "relaxed", "offset"])),
            "window": window, "window_as": draw(st.sampled_from(["tuple", "list", "nparray", "npints"])),
            "step": step, "step_as": draw(st.sampled_from(["plain", "npint", "tuple"])), "dilation": dil}


def _is_posint(v):
    return isinstance(v, Integral) and not isinstance(v, bool) and v > 0


def swv_valid(shape, window, step, dilation):
    """the specification's predicate (None = unspecified)"""
    nd = len(shape)
    if not all(_is_posint(w) for w in window) or len(window) > nd or len(window) == 0:
        return False
    if isinstance(step, (list, tuple)):
        if not all(_is_posint(s) for s in step):
            return False
        if len(step) != len(window):
            return None
    elif not _is_posint(step):
        return False
    tail = shape[nd - len(window):]
    if any(w > x for w, x in zip(window, tail)):
        return False
    if dilation is not None:
        if isinstance(dilation, (list, tuple)):
            if len(dilation) != len(window) or not all(_is_posint(d) for d in dilation):
                return False
            dl = list(dilation)
        else:
            if not _is_posint(dilation):
                return False
            dl = [dilation] * len(window)
        if any(w * d > x for w, d, x in zip(window, dl, tail)):
            return False
    return True


def check_swv(case):
    import mygrad as mg

    reset_mygrad()
    shape = case["shape"]
    n = int(np.prod(shape))
    base = np.arange(n).reshape(shape)
    dt = np.dtype(case["dtype"])
    arr = (base % 2).astype(bool) if dt.kind == "b" else (base % 100).astype(dt)
    if case["layout"]:
        if case["layout"] == "F":
            arr = np.asfortranarray(arr)
        elif not (case["layout"] == "relaxed" and 1 not in shape):
            arr = apply_layout(arr, case["layout"])
    ref_arr = np.array(arr)  # values (layout-free)
    window, step, dil = case["window"], case["step"], case["dilation"]
    wa = case["window_as"]
    w_arg = tuple(window) if wa == "tuple" else list(window) if wa == "list" else (
        np.array(window) if wa == "nparray" and all(isinstance(w, int) for w in window) else tuple(
            np.int64(w) if isinstance(w, int) else w for w in window))
    if isinstance(step, list):
        s_arg = tuple(step)
    elif case["step_as"] == "npint" and isinstance(step, int):
        s_arg = np.int32(step)
    else:
        s_arg = step
    d_arg = tuple(dil) if isinstance(dil, list) else dil
    valid = swv_valid(shape, window, step if not isinstance(step, list) else list(step), dil)
    try:
        out = mg.sliding_window_view(arr, window_shape=w_arg, step=s_arg, dilation=d_arg)
        err = None
    except Exception as e:  # noqa: BLE001
        out, err = None, e
    if valid is False:
        if err is None:
            return Mismatch("swv_accepted_invalid", f"sliding_window_view accepted window={window} step={step} dilation={dil} on shape {shape}")
        return None
    if valid is True and err is not None:
        return Mismatch("swv_rejected_valid", f"sliding_window_view rejected window={window} step={step} dilation={dil} on shape {shape}: {fmt_exc(err)}")
    if err is not None:
        return None
    k = len(window)
    sl = list(step) if isinstance(step, list) else [step] * k
    if len(sl) != k:
        return None  # unspecified pairing of steps and axes
    dl = [1] * k if dil is None else (list(dil) if isinstance(dil, list) else [dil] * k)
    tail = shape[len(shape) - k:]
    grid = [(x - ((w - 1) * d + 1)) // s + 1 for x, w, s, d in zip(tail, window, sl, dl)]
    want_shape = tuple(grid) + tuple(shape[: len(shape) - k]) + tuple(window)
    if out.shape != want_shape:
        return Mismatch("swv_shape", f"shape {out.shape}, expected {want_shape} (window={window} step={step} dilation={dil} on {shape})")
    if out.flags.writeable:
        return Mismatch("swv_writeable", "sliding_window_view returned a writeable view")
    root = out
    while isinstance(root.base, np.ndarray):
        root = root.base
    lo, hi = np.lib.array_utils.byte_bounds(out) if out.size else (0, 0)
    rlo, rhi = np.lib.array_utils.byte_bounds(root)
    if out.size and not (rlo <= lo and hi <= rhi):
        return Mismatch("swv_out_of_bounds", f"the view spans bytes [{lo - rlo},{hi - rlo}) of a {rhi - rlo}-byte buffer")
    if out.dtype != ref_arr.dtype:
        return Mismatch("swv_dtype", f"{out.dtype} vs {ref_arr.dtype}")
    lead = shape[: len(shape) - k]
    for g in itertools.product(*[range(x) for x in grid]):
        for w in itertools.product(*[range(x) for x in window]):
            pos = tuple(gi * s + wi * d for gi, s, wi, d in zip(g, sl, w, dl))
            got = out[g + (Ellipsis,) + w] if lead else out[g + w]
            want = ref_arr[(Ellipsis,) + pos]
            if not np.array_equal(got, want):
                return Mismatch("swv_value", f"out[{g},...,{w}] != arr[...,{pos}] (layout {case['layout']}, dtype {case['dtype']}, shape {shape}, window={window} step={step} dilation={dil})")
    return None


# ------------------------------------------------------------------------------------ conv / pool configs
@st.composite
def config_cases(draw):
    layer = draw(st.sampled_from(["conv", "conv", "pool"]))
    nsp = draw(st.sampled_from([1, 1, 2, 2, 3]))
    X = [draw(st.integers(1, 7 if nsp == 1 else 5 if nsp == 2 else 3)) for _ in range(nsp)]
    W = [draw(st.integers(1, 4)) for _ in range(nsp)]
    s = [draw(st.integers(1, 4)) for _ in range(nsp)]
    p = [draw(st.sampled_from([0, 0, 1, 2, 3])) for _ in range(nsp)]
    d = [draw(st.sampled_from([1, 1, 2, 3, 4])) for _ in range(nsp)]
    return {"layer": layer, "X": X, "W": W, "s": s, "p": p, "d": d, "N": draw(st.integers(1, 2)), "C": draw(st.integers(1, 2)),
            "F": draw(st.integers(1, 2)), "scalar_opts": draw(st.booleans()), "seedv": draw(st.integers(0, 50)),
            "layout": draw(st.sampled_from([None, None, "F", "neg", "sliced", "offset"])), "lead": draw(st.integers(0, 2))}


def _data(shape, seedv, scale=1.0):
    n = int(np.prod(shape))
    return ((np.arange(n) * 7 + seedv * 3) % 23 - 11).astype(np.float64).reshape(shape) * scale / 4.0


def _opt(vals, scalar):
    return int(vals[0]) if scalar and len(set(vals)) == 1 else tuple(int(v) for v in vals)


def check_config(case):
    import mygrad as mg

    reset_mygrad()
    X, W, s, p, d = case["X"], case["W"], case["s"], case["p"], case["d"]
    if case["layer"] == "conv":
        x = _data([case["N"], case["C"]] + X, case["seedv"])
        w = _data([case["F"], case["C"]] + W, case["seedv"] + 5, 0.5)
        if case["layout"]:
            x = np.asfortranarray(x) if case["layout"] == "F" else apply_layout(x, case["layout"])
        valid = LR.conv_valid(X, W, s, p, d)
        try:
            out = mg.nnet.conv_nd(x, w, stride=_opt(s, case["scalar_opts"]), padding=_opt(p, case["scalar_opts"]),
                                  dilation=_opt(d, case["scalar_opts"]))
            err = None
        except Exception as e:  # noqa: BLE001
            out, err = None, e
        cfg = f"conv_nd x{tuple(X)} w{tuple(W)} stride={s} padding={p} dilation={d}"
        if not valid:
            return None if err is not None else Mismatch("layer_accepted_invalid", f"{cfg}: accepted although the placements do not tile the padded data")
        if err is not None:
            return Mismatch("layer_rejected_valid", f"{cfg}: {fmt_exc(err)}")
        want = LR.ref_conv_nd(np.array(x), w, s, p, d)
    else:
        lead = [2] * case["lead"]
        x = _data(lead + X, case["seedv"])
        # distinct values so that the max is unique
        x = x + np.arange(x.size).reshape(x.shape) * 1e-3
        if case["layout"]:
            x = np.asfortranarray(x) if case["layout"] == "F" else apply_layout(x, case["layout"])
        valid = LR.pool_valid(X, W, s)
        try:
            out = mg.nnet.max_pool(x, tuple(W), _opt(s, case["scalar_opts"]))
            err = None
        except Exception as e:  # noqa: BLE001
            out, err = None, e
        cfg = f"max_pool x{tuple(X)} pool={W} stride={s}"
        if not valid:
            return None if err is not None else Mismatch("layer_accepted_invalid", f"{cfg}: accepted although the windows do not tile the data")
        if err is not None:
            return Mismatch("layer_rejected_valid", f"{cfg}: {fmt_exc(err)}")
        want = LR.ref_max_pool(np.array(x), tuple(W), s)
    if out.shape != want.shape:
        return Mismatch("layer_shape", f"{cfg}: shape {out.shape} vs {want.shape}")
    if not np.allclose(out.data, want, rtol=1e-10, atol=1e-10):
        return Mismatch("layer_value", f"{cfg}: differs from the naive evaluation (max abs err {np.max(np.abs(out.data - want)):.2e})")
    return None


# ------------------------------------------------------------------------------------ exhaustive enumeration
def enum_configs(tier, part, nparts):
    out = []
    for X in range(1, 9):
        for W in range(1, 9):
            for s in range(1, 5):
                out.append({"layer": "pool", "X": [X], "W": [W], "s": [s], "p": [0], "d": [1], "N": 1, "C": 1, "F": 1, "scalar_opts": False,
                            "seedv": X + W, "layout": None, "lead": 1})
                for p in range(0, 4):
                    for d in range(1, 5):
                        out.append({"layer": "conv", "X": [X], "W": [W], "s": [s], "p": [p], "d": [d], "N": 1, "C": 1, "F": 1,
                                    "scalar_opts": (X + W + s) % 2 == 0, "seedv": X * W, "layout": None, "lead": 0})
    if tier == "thorough":
        rng = range(1, 5)
        for X0, X1, W0, W1 in itertools.product(rng, rng, rng, rng):
            for s0, s1 in itertools.product(range(1, 4), repeat=2):
                out.append({"layer": "pool", "X": [X0, X1], "W": [W0, W1], "s": [s0, s1], "p": [0, 0], "d": [1, 1], "N": 1, "C": 1, "F": 1,
                            "scalar_opts": False, "seedv": X0 + X1, "layout": None, "lead": 0})
                for p0, p1 in itertools.product(range(0, 3), repeat=2):
                    for d0, d1 in itertools.product(range(1, 4), repeat=2):
                        out.append({"layer": "conv", "X": [X0, X1], "W": [W0, W1], "s": [s0, s1], "p": [p0, p1], "d": [d0, d1], "N": 1,
                                    "C": 1, "F": 1, "scalar_opts": False, "seedv": X0 * W1, "layout": None, "lead": 0})
    return out[part::nparts]


# ------------------------------------------------------------------------------------ formulas of the remaining layers
def check_formula(case, rec=None):
    """one-layer programs (batchnorm, gru, softmax family, losses, also conv/pool): forward value vs naive formula"""
    from vf import ir

    reset_mygrad()
    prog, L = case["prog"], case["L"]
    run = ir.MgRun(prog).run()
    if run.error is not None:
        return Mismatch("raised", f"{case['op']} stmt {run.error_idx}: {fmt_exc(run.error)}")
    ref = ir.RefRun(prog).run()
    got, want = run.env[L].data, ref.env[L]
    if got.shape != want.shape:
        return Mismatch("layer_shape", f"{case['op']}: shape {got.shape} vs {want.shape}")
    if not np.allclose(got, want, rtol=1e-10, atol=1e-10):
        return Mismatch("layer_value", f"{case['op']}: differs from the documented formula evaluated naively "
                                       f"(max abs err {np.max(np.abs(got - want)):.2e})")
    return None


NS = {"quick": 700, "thorough": 10000}
NC = {"quick": 500, "thorough": 8000}
NF = {"quick": 150, "thorough": 2500}


# ------------------------------------------------------------------------------------ softmax family over the whole float range
@st.composite
def softmax_cases(draw):
    nd = draw(st.integers(1, 3))
    shape = [draw(st.integers(1, 4)) for _ in range(nd)]
    n = int(np.prod(shape))
    scale = draw(st.sampled_from([1, 1, 30, 120, 800, 5000]))  # spreads far beyond where exp() under/overflows
    vals = draw(st.lists(st.integers(-8, 8), min_size=n, max_size=n))
    axk = draw(st.sampled_from(["none", "int", "int", "tuple", "default"]))
    if axk == "int":
        axis = draw(st.integers(-nd, nd - 1))
    elif axk == "tuple":
        axis = sorted(set(draw(st.lists(st.integers(0, nd - 1), min_size=1, max_size=nd))))
    else:
        axis = None
    return {"fn": draw(st.sampled_from(["softmax", "logsoftmax"])), "shape": shape, "vals": vals, "scale": scale,
            "dtype": draw(st.sampled_from(["float64", "float64", "float32"])), "axis_kind": axk, "axis": axis,
            "as_tensor": draw(st.booleans())}


def check_softmax(case):
    """documented equations softmax = exp(x)/sum(exp(x)), logsoftmax = log(softmax(x)), evaluated in float64 in their
    mathematically equal shifted form (x - max), which is finite wherever the documented value is"""
    import mygrad as mg

    reset_mygrad()
    x = (np.array(case["vals"], dtype=np.float64).reshape(case["shape"]) * case["scale"] / 8.0).astype(case["dtype"])
    kw = {}
    if case["axis_kind"] != "default":
        kw["axis"] = tuple(case["axis"]) if isinstance(case["axis"], list) else case["axis"]
    arg = mg.tensor(x) if case["as_tensor"] else x
    try:
        with np.errstate(all="ignore"):
            got = getattr(mg.nnet, case["fn"])(arg, **kw).data
    except Exception as e:  # noqa: BLE001
        return Mismatch("raised", f"{case['fn']}(shape {case['shape']}, axis={kw.get('axis', 'default')}): {fmt_exc(e)}")
    ax = kw.get("axis", -1)
    x64 = x.astype(np.float64)
    sh = x64 - x64.max(axis=ax, keepdims=True)
    lse = np.log(np.exp(sh).sum(axis=ax, keepdims=True))
    want = sh - lse if case["fn"] == "logsoftmax" else np.exp(sh - lse)
    if got.shape != want.shape:
        return Mismatch("layer_shape", f"{case['fn']}: shape {got.shape} vs {want.shape}")
    if got.dtype != x.dtype:
        return Mismatch("layer_dtype", f"{case['fn']}: dtype {got.dtype} for {x.dtype} input")
    eps = np.finfo(x.dtype).eps
    tol = 64 * eps * (np.abs(want) + np.abs(x64).max() + 1.0) if case["fn"] == "logsoftmax" else 64 * eps * (want + 1e-30) + 4 * np.finfo(x.dtype).tiny
    bad = ~(np.abs(got.astype(np.float64) - want) <= tol)
    if bad.any():
        i = int(np.argmax(bad))
        return Mismatch("layer_value", f"{case['fn']}(dtype {x.dtype}, spread {float(np.ptp(x64)):.0f}): {got.ravel()[i]!r} where the "
                                       f"documented formula gives {want.ravel()[i]!r}")
    return None


def shard_plan(tier):
    return ([f"swv{i}" for i in range(5)] + [f"cfg{i}" for i in range(4)] + [f"enum{i}" for i in range(4)]
            + [f"formula{i}" for i in range(3)] + ["softmax0"])


def run_shard(shard, seed, tier):
    rec = Recorder()
    if shard.startswith("swv"):
        def cc(case):
            v = swv_valid(case["shape"], case["window"], case["step"], case["dilation"])
            labels = ["swv", "swv_valid" if v else "swv_invalid" if v is False else "swv_unspecified"]
            if case["layout"]:
                labels.append("layout_" + case["layout"])
            if case["dilation"] is not None:
                labels.append("dilated")
            rec.note([case["shape"], case["window"], case["step"], case["dilation"], case["layout"], case["dtype"]],
                     (v is False) or bool(case["layout"]) or case["dilation"] is not None or case["step"] not in (1, [1]), labels, sample=case)
            return check_swv(case)

        viol = drive(prop=PROPERTY, name="sliding_window_view", strategy=swv_cases(), check_case=cc, rec=rec, seed=seed, max_examples=NS[tier])
    elif shard.startswith("cfg"):
        def cc(case):
            valid = LR.conv_valid(case["X"], case["W"], case["s"], case["p"], case["d"]) if case["layer"] == "conv" else LR.pool_valid(case["X"], case["W"], case["s"])
            labels = [case["layer"], "valid" if valid else "invalid", f"{len(case['X'])}d"]
            nt = (not valid) or max(case["s"]) > 1 or (case["layer"] == "conv" and (max(case["d"]) > 1 or max(case["p"]) > 0)) or bool(case["layout"])
            rec.note([case["layer"], case["X"], case["W"], case["s"], case["p"], case["d"], case["layout"]], nt, labels, sample=case)
            return check_config(case)

        viol = drive(prop=PROPERTY, name="layer_config", strategy=config_cases(), check_case=cc, rec=rec, seed=seed, max_examples=NC[tier])
    elif shard.startswith("enum"):
        part = int(shard[4:])
        viol = []
        for case in enum_configs(tier, part, 4):
            valid = LR.conv_valid(case["X"], case["W"], case["s"], case["p"], case["d"]) if case["layer"] == "conv" else LR.pool_valid(case["X"], case["W"], case["s"])
            rec.note([case["layer"], case["X"], case["W"], case["s"], case["p"], case["d"]], True,
                     ["enumerated", "enum_valid" if valid else "enum_invalid"], sample=case)
            mm = check_config(case)
            if mm is not None:
                from vf import known as _known

                kid = _known.match(PROPERTY, case, mm)
                if kid is not None:
                    rec.known[kid] = rec.known.get(kid, 0) + 1
                    continue
                viol.append({"check": "layer_config", "case": case, "mismatch": mm.to_json()})
                break
        rec.extra["enumerated_configs"] = rec.evaluations
    elif shard.startswith("softmax"):
        def cc(case):
            rec.note([case["fn"], case["shape"], case["scale"], case["dtype"], case["axis_kind"], case["axis"]],
                     case["scale"] > 1 or case["axis_kind"] in ("none", "tuple") or case["dtype"] != "float64",
                     ["formula_" + case["fn"], f"spread_scale_{case['scale']}", "axis_" + case["axis_kind"]], sample=case)
            return check_softmax(case)

        viol = drive(prop=PROPERTY, name="softmax_family", strategy=softmax_cases(), check_case=cc, rec=rec, seed=seed,
                     max_examples=NF[tier] * 3)
    else:
        from vf.checks import c02_layers

        def cc(case):
            rec.note([[s.get("op"), s.get("p"), s.get("shape")] for s in case["prog"]["stmts"]], True, ["formula_" + case["op"]],
                     sample={"op": case["op"], "stmts": case["prog"]["stmts"]})
            return check_formula(case)

        viol = drive(prop=PROPERTY, name="layer_formula", strategy=c02_layers.layer_cases(), check_case=cc, rec=rec, seed=seed,
                     max_examples=NF[tier])
    out = rec.result()
    out["violations"] = viol
    return out


def replay(check, case):
    if check == "sliding_window_view":
        return check_swv(case)
    if check == "softmax_family" or "fn" in case:
        return check_softmax(case)
    if check == "layer_formula" or "prog" in case:
        return check_formula(case)
    return check_config(case)
