"""C17 — tensor construction and conversion: copying, aliasing and dtype rules."""

from __future__ import annotations

import copy as _copy

import numpy as np
from hypothesis import strategies as st

from vf.common import Mismatch, Recorder, drive, fmt_exc, reset_mygrad

PROPERTY = "C17"
RULE = (
    "Lattice of input kind {python bool/int/float, nested list, ndarray of 8 dtypes in C/F/sliced layout and "
    "writeable or read-only, Tensor: leaf / holding a gradient / with a creator / view / constant} x entry point "
    "{mg.tensor, mg.Tensor, mg.astensor, mg.asarray, np.asarray(t), t.copy, t.astype, copy.copy} x dtype {None, "
    "same, other float, int, bool, complex64, object, str} x constant {None, True, False} x copy {True, False} x "
    "ndmin {-1..3}; plus the creation routines (zeros, ones, empty, full, *_like, arange, linspace, logspace, "
    "geomspace, eye, identity) with drawn explicit arguments. Oracle = decision table from the docstrings: default "
    "construction copies (no shared memory, a later write to the source is not observed); copy=False / astensor / "
    "asarray share memory iff the source is an array or tensor and the requested dtype is its dtype; astensor(t) is t "
    "(creator and gradient untouched) iff dtype and constant match; copy()/astype()/copy.copy give creator None, "
    "base None and no shared memory (astype(copy=False) returns t itself iff nothing changes); values, shape, dtype "
    "equal numpy.array(x, dtype=, ndmin=); integer/bool data with constant=False raise ValueError; non-real dtypes "
    "raise TypeError while tracking is on; creation routines equal NumPy bit for bit and zeros/ones/empty default to "
    "float32. Non-trivial = a cell whose aliasing outcome differs between copy=True and copy=False, any dtype "
    "conversion, or a creation routine with a non-default argument; distinct by the lattice cell."
)
ASSUMPTIONS = ["numpy.array / numpy creation routines are the value oracle"]

DT = ["bool", "int8", "int32", "int64", "uint8", "float16", "float32", "float64"]
REQ_DT = [None, None, "same", "float32", "float64", "float16", "int32", "int64", "bool", "complex64", "object", "str"]


@st.composite
def cases(draw):
    fam = draw(st.sampled_from(["construct", "construct", "construct", "convert", "creation"]))
    if fam == "creation":
        fn = draw(st.sampled_from(["zeros", "ones", "empty", "full", "zeros_like", "ones_like", "empty_like", "full_like", "arange",
                                   "linspace", "logspace", "geomspace", "eye", "identity"]))
        shape = [draw(st.integers(0, 3)) for _ in range(draw(st.integers(0, 3)))]
        return {"fam": fam, "fn": fn, "shape": shape, "int_shape": draw(st.booleans()),
                "dtype": draw(st.sampled_from([None, None, "float64", "float32", "float16", "int32", "int8", "bool"])),
                "fill": draw(st.sampled_from([0, 1, 2.5, -3, True])), "constant": draw(st.sampled_from([None, None, True, False])),
                "like_dtype": draw(st.sampled_from(DT)), "like_shape": draw(st.sampled_from([None, None, [2], [1, 3], 4])),
                "a": draw(st.integers(-3, 4)), "b": draw(st.integers(-3, 9)), "step": draw(st.sampled_from([None, 1, 2, -1, 0.5])),
                "num": draw(st.integers(0, 6)), "endpoint": draw(st.booleans()), "k": draw(st.integers(-2, 2)),
                "M": draw(st.sampled_from([None, 1, 3])), "float_args": draw(st.booleans()), "base": draw(st.sampled_from([10, 2, 2.5])),
                # array-like end points (sequence / 2-d) and the axis along which the samples are laid out
                "vec": draw(st.sampled_from([None, None, "1d", "2d"])), "axis": draw(st.sampled_from([None, None, 0, -1, 1]))}
    src = draw(st.sampled_from(["pyint", "pyfloat", "pybool", "list", "nested_list", "ndarray", "ndarray", "ndarray", "tensor_leaf",
                                "tensor_grad", "tensor_creator", "tensor_view", "tensor_const"]))
    shape = [draw(st.integers(0, 3)) for _ in range(draw(st.integers(0, 3)))]
    if src in ("list",):
        shape = [draw(st.integers(0, 4))]
    if src == "nested_list":
        shape = [draw(st.integers(1, 3)), draw(st.integers(0, 3))]
    if src.startswith("py"):
        shape = []
    n = int(np.prod(shape)) if shape else 1
    c = {"fam": fam, "src": src, "shape": shape, "vals": draw(st.lists(st.integers(-3, 5), min_size=n, max_size=n)),
         "sdtype": draw(st.sampled_from(DT)), "layout": draw(st.sampled_from(["C", "C", "F", "sliced"])), "readonly": draw(st.integers(0, 4)) == 0,
         "dtype": draw(st.sampled_from(REQ_DT)), "constant": draw(st.sampled_from([None, None, True, False])), "copy": draw(st.booleans()),
         "ndmin": draw(st.sampled_from([0, 0, -1, 1, 2, 3]))}
    if src.startswith("tensor") and src != "tensor_const" and src != "tensor_leaf":
        c["sdtype"] = draw(st.sampled_from(["float64", "float32", "float16"]))
    if fam == "construct":
        c["entry"] = draw(st.sampled_from(["tensor", "tensor", "Tensor", "astensor", "asarray"]))
    else:
        c["entry"] = draw(st.sampled_from(["np_asarray", "copy", "astype", "astype", "copy_copy"]))
        if not src.startswith("tensor"):
            c["src"] = draw(st.sampled_from(["tensor_leaf", "tensor_grad", "tensor_creator", "tensor_view", "tensor_const"]))
            if c["src"] not in ("tensor_const", "tensor_leaf"):
                c["sdtype"] = draw(st.sampled_from(["float64", "float32", "float16"]))
        c["casting"] = draw(st.sampled_from(["unsafe", "unsafe", "same_kind", "safe"]))
    return c


def make_source(mg, c):
    """returns (source object handed to mygrad, reference ndarray of its values, the memory-owning ndarray or None, aux)"""
    src = c["src"]
    dt = np.dtype(c["sdtype"])
    v = np.array(c["vals"], dtype=np.float64)
    if dt.kind == "f":
        arr = (v / 2.0).astype(dt)
    elif dt.kind == "b":
        arr = (v.astype(np.int64) % 2).astype(bool)
    elif dt.kind == "u":
        arr = np.abs(v).astype(dt)
    else:
        arr = v.astype(dt)
    arr = arr.reshape(c["shape"])
    if src == "pyint":
        return int(c["vals"][0]), np.array(int(c["vals"][0])), None, {}
    if src == "pyfloat":
        return float(c["vals"][0]) / 2.0, np.array(float(c["vals"][0]) / 2.0), None, {}
    if src == "pybool":
        return bool(c["vals"][0] % 2), np.array(bool(c["vals"][0] % 2)), None, {}
    if src in ("list", "nested_list"):
        lst = arr.tolist()
        return lst, np.array(lst), None, {}
    if src == "ndarray":
        a = arr
        if c["layout"] == "F" and a.ndim >= 2:
            a = np.asfortranarray(a)
        elif c["layout"] == "sliced" and a.ndim >= 1:
            big = np.zeros(a.shape[:-1] + (a.shape[-1] * 2,), dtype=a.dtype)
            big[..., ::2] = a
            a = big[..., ::2]
        if c["readonly"]:
            a.flags.writeable = False
        return a, a, a, {}
    # tensors
    if src == "tensor_const" or dt.kind != "f":
        t = mg.tensor(arr, constant=True)
        return t, t.data, t.data, {"t": t}
    if src == "tensor_leaf":
        t = mg.tensor(arr)
        return t, t.data, t.data, {"t": t}
    if src == "tensor_grad":
        t = mg.tensor(arr)
        (t * 2.0).sum().backward()
        return t, t.data, t.data, {"t": t, "grad": t.grad}
    if src == "tensor_creator":
        x = mg.tensor(arr)
        t = x * 1.0
        return t, t.data, t.data, {"t": t, "keep": x, "creator": t.creator}
    # view
    x = mg.tensor(arr)
    t = x[...]
    return t, t.data, t.data, {"t": t, "keep": x, "creator": t.creator, "base": x}


def _req_dtype(c, ref):
    d = c["dtype"]
    if d is None:
        return None
    if d == "same":
        return np.asarray(ref).dtype
    return np.dtype(d) if d != "str" else np.dtype(str)


def check_construct(mg, c):
    src, ref, owner, aux = make_source(mg, c)
    req = _req_dtype(c, ref)
    entry = c["entry"]
    is_tensor_src = isinstance(src, mg.Tensor)
    if not is_tensor_src and not isinstance(src, np.ndarray):
        ref = src  # python scalars / lists: numpy is given the very same object
    kw = {}
    if req is not None:
        kw["dtype"] = req if c["dtype"] != "same" else np.asarray(ref).dtype
    const = c["constant"]
    # expected dtype/values from numpy
    try:
        want = np.array(ref, dtype=req, ndmin=max(c["ndmin"], 0) if entry in ("tensor", "Tensor") else 0)
        np_ok = True
    except Exception:  # noqa: BLE001
        want, np_ok = None, False
    non_real = want is not None and want.dtype.kind not in "biuf"
    snap_src = None if owner is None else owner.tobytes()
    try:
        if entry == "tensor":
            out = mg.tensor(src, constant=const, copy=c["copy"], ndmin=c["ndmin"], **kw)
        elif entry == "Tensor":
            out = mg.Tensor(src, constant=const, copy=c["copy"], ndmin=c["ndmin"], **kw)
        elif entry == "astensor":
            out = mg.astensor(src, constant=const, **kw)
        else:
            out = mg.asarray(src, **kw)
        err = None
    except Exception as e:  # noqa: BLE001
        out, err = None, e
    if entry == "asarray":
        if not np_ok:
            return None if err is not None else Mismatch("accepted_what_numpy_rejects", "mg.asarray accepted what np.asarray rejects")
        if err is not None:
            return Mismatch("raised", f"mg.asarray: {fmt_exc(err)}")
        if not isinstance(out, np.ndarray) or isinstance(out, mg.Tensor):
            return Mismatch("asarray_type", f"mg.asarray returned {type(out).__name__}")
        w2 = np.asarray(ref, dtype=req)
        if out.dtype != w2.dtype or out.shape != w2.shape or not _eq(out, w2):
            return Mismatch("asarray_value", "mg.asarray differs from np.asarray on the data")
        if owner is not None and owner.size and (req is None or req == owner.dtype):
            if not np.shares_memory(out, owner):
                return Mismatch("asarray_copied", "mg.asarray copied although the dtype already matched")
        return None
    # --- tensor / Tensor / astensor
    if not np_ok:
        return None if err is not None else Mismatch("accepted_what_numpy_rejects", f"mg.{entry} accepted what np.array rejects")
    will_be_float = want.dtype.kind == "f"
    passthrough = (
        entry in ("tensor", "astensor") and is_tensor_src and (entry == "astensor" or c["copy"] is False)
        and (const is None or src.constant is const) and (req is None or req == src.dtype)
    )
    if non_real and not passthrough:
        if err is None:
            return Mismatch("non_real_dtype_accepted", f"mg.{entry}(dtype={want.dtype}) accepted while tracking is on")
        if not isinstance(err, TypeError):
            return Mismatch("non_real_wrong_exception", f"mg.{entry}(dtype={want.dtype}): {fmt_exc(err)}")
        return None
    if not will_be_float and const is False and not passthrough:
        if err is None:
            return Mismatch("int_nonconstant_accepted", f"mg.{entry}: integer/bool data with constant=False accepted")
        if not isinstance(err, ValueError):
            return Mismatch("int_nonconstant_wrong_exception", fmt_exc(err))
        return None
    if err is not None:
        return Mismatch("raised", f"mg.{entry}({c['src']}, dtype={c['dtype']}, constant={const}, copy={c['copy']}, ndmin={c['ndmin']}): {fmt_exc(err)}")
    if not isinstance(out, mg.Tensor):
        return Mismatch("type", f"mg.{entry} returned {type(out).__name__}")
    if passthrough:
        nd_eff = max(c["ndmin"], 0) if entry == "tensor" else 0
        if nd_eff > src.ndim:
            # documented: the tensor is returned with leading axes prepended (a view of the source)
            if out.shape != (1,) * (nd_eff - src.ndim) + src.shape or not _eq(out.data.reshape(src.shape), src.data):
                return Mismatch("passthrough_ndmin", "tensor(t, copy=False, ndmin=k): wrong shape/values")
            if src.size and not np.shares_memory(out.data, src.data):
                return Mismatch("passthrough_ndmin_copied", "tensor(t, copy=False, ndmin=k) copied the data")
            return None
        if nd_eff <= src.ndim:
            if out is not src:
                return Mismatch("passthrough_not_identity", f"mg.{entry}(t) with matching dtype/constant did not return t itself")
            if "creator" in aux and src.creator is not aux["creator"]:
                return Mismatch("passthrough_graph", "creator changed by astensor passthrough")
            if "grad" in aux and src.grad is not aux["grad"]:
                return Mismatch("passthrough_grad", "gradient changed by astensor passthrough")
            return None
    if out is src and not passthrough:
        return Mismatch("identity_unexpected", f"mg.{entry} returned the source tensor although dtype/constant/copy demanded a new one")
    if out.dtype != want.dtype:
        return Mismatch("dtype", f"mg.{entry}: dtype {out.dtype}, numpy.array gives {want.dtype}")
    nd_eff = max(c["ndmin"], 0) if entry in ("tensor", "Tensor") else 0
    want_shape = np.array(ref, ndmin=nd_eff).shape
    if out.shape != want_shape:
        return Mismatch("shape", f"mg.{entry}: shape {out.shape}, numpy.array gives {want_shape}")
    if not _eq(out.data, want.reshape(want_shape)):
        return Mismatch("value", f"mg.{entry}: values differ from numpy.array")
    exp_const = const if const is not None else (not will_be_float)
    if out.constant is not exp_const:
        return Mismatch("constant", f"mg.{entry}: constant={out.constant}, expected {exp_const}")
    copy_flag = c["copy"] if entry in ("tensor", "Tensor") else False
    if owner is not None and owner.size:
        shares = np.shares_memory(out.data, owner)
        if copy_flag:
            if shares:
                return Mismatch("default_construction_aliases", f"mg.{entry}(copy=True) shares memory with its input")
            if owner.flags.writeable:
                before = out.data.tobytes()
                owner[...] = owner + 1 if owner.dtype.kind != "b" else ~owner
                if out.data.tobytes() != before:
                    return Mismatch("source_change_observed", f"a later change to the input is seen by mg.{entry}(copy=True)")
        else:
            want_share = req is None or req == owner.dtype
            if want_share and not shares:
                return Mismatch("copy_false_copied", f"mg.{entry}(copy=False/astensor) copied although the dtype already matched")
            if not want_share and shares:
                return Mismatch("alias_despite_dtype_change", f"mg.{entry}: shares memory although a dtype conversion was requested")
    if snap_src is not None and (not copy_flag or not (owner is not None and owner.flags.writeable)) and owner.tobytes() != snap_src:
        return Mismatch("input_modified", f"mg.{entry} modified its input")
    if out.creator is not None or (out.base is not None and not is_tensor_src):
        return Mismatch("graph", f"mg.{entry}: a freshly constructed tensor has creator/base")
    return None


def check_convert(mg, c):
    src, ref, owner, aux = make_source(mg, c)
    t = src
    entry = c["entry"]
    req = _req_dtype(c, ref)
    if entry == "np_asarray":
        try:
            out = np.asarray(t) if req is None else np.asarray(t, dtype=req)
        except Exception as e:  # noqa: BLE001
            try:
                np.asarray(ref, dtype=req)
            except Exception:  # noqa: BLE001
                return None
            return Mismatch("raised", f"np.asarray(t, dtype={req}): {fmt_exc(e)}")
        w = np.asarray(ref, dtype=req)
        if isinstance(out, mg.Tensor) or out.dtype != w.dtype or out.shape != w.shape or not _eq(out, w):
            return Mismatch("np_asarray", "np.asarray(t) differs from np.asarray(t.data)")
        if (req is None or req == ref.dtype) and t.size and not np.shares_memory(out, t.data):
            return Mismatch("np_asarray_copied", "np.asarray(t) copied the data although no conversion was needed")
        return None
    if entry in ("copy", "copy_copy"):
        const = c["constant"] if entry == "copy" else None
        try:
            out = t.copy(constant=const) if entry == "copy" else _copy.copy(t)
        except ValueError:
            if const is False and t.dtype.kind != "f":
                return None
            return Mismatch("raised", "t.copy raised ValueError")
        except Exception as e:  # noqa: BLE001
            return Mismatch("raised", f"t.copy: {fmt_exc(e)}")
        if const is False and t.dtype.kind != "f":
            return Mismatch("int_nonconstant_accepted", "t.copy(constant=False) on integer data accepted")
        if out is t or out.creator is not None or out.base is not None:
            return Mismatch("copy_not_detached", "t.copy() is not detached from the graph (identity/creator/base)")
        if t.size and np.shares_memory(out.data, t.data):
            return Mismatch("copy_aliases", "t.copy() shares memory with t")
        if out.dtype != t.dtype or out.shape != t.shape or not _eq(out.data, t.data):
            return Mismatch("copy_value", "t.copy() differs from t")
        if out.constant is not (t.constant if const is None else const):
            return Mismatch("copy_constant", f"t.copy(constant={const}).constant == {out.constant}")
        return None
    # astype
    if req is None:
        req = ref.dtype
    const = c["constant"]
    try:
        want = ref.astype(req, casting=c["casting"])
        np_ok = True
    except Exception:  # noqa: BLE001
        want, np_ok = None, False
    try:
        out = t.astype(req, casting=c["casting"], copy=c["copy"], constant=const)
        err = None
    except Exception as e:  # noqa: BLE001
        out, err = None, e
    if not np_ok:
        return None if err is not None else Mismatch("accepted_what_numpy_rejects", f"t.astype({req}, casting={c['casting']}) accepted; ndarray.astype rejects")
    non_real = want.dtype.kind not in "biuf"
    if non_real:
        if err is None:
            return Mismatch("non_real_dtype_accepted", f"t.astype({want.dtype}) accepted while tracking is on")
        return None if isinstance(err, TypeError) else Mismatch("non_real_wrong_exception", fmt_exc(err))
    if want.dtype.kind != "f" and const is False:
        if err is None:
            return Mismatch("int_nonconstant_accepted", "t.astype(int, constant=False) accepted")
        return None if isinstance(err, ValueError) else Mismatch("int_nonconstant_wrong_exception", fmt_exc(err))
    if err is not None:
        return Mismatch("raised", f"t.astype({req}, casting={c['casting']}, copy={c['copy']}, constant={const}): {fmt_exc(err)}")
    nothing_changes = req == t.dtype and (const is None or const is t.constant)
    if c["copy"] is False and nothing_changes:
        if out is not t:
            return Mismatch("astype_nocopy_identity", "t.astype(same dtype, copy=False) did not return t itself")
        return None
    if out is t:
        return Mismatch("astype_identity", "t.astype returned t itself although a copy / conversion was requested")
    if out.creator is not None or out.base is not None:
        return Mismatch("astype_not_detached", "t.astype() result has a creator/base")
    if out.dtype != want.dtype or out.shape != want.shape or not _eq(out.data, want):
        return Mismatch("astype_value", "t.astype differs from ndarray.astype")
    if c["copy"] and t.size and np.shares_memory(out.data, t.data):
        return Mismatch("astype_aliases", "t.astype(copy=True) shares memory with t")
    return None


def _endpoints(c, a, b, kw):
    """scalar end points, or (c["vec"]) array-like ones of one/two dimensions; axis= only when drawn"""
    kx = dict(kw)
    if c.get("vec") == "1d":
        a, b = [a, a + 1, a + 2], [b, b + 2, b + 1]
    elif c.get("vec") == "2d":
        a, b = [[a, a + 1, a + 2], [a + 1, a + 1, a + 3]], [[b, b + 2, b + 1], [b + 3, b + 1, b + 1]]
    if c.get("axis") is not None:
        kx["axis"] = c["axis"]
    return a, b, kx


def check_creation(mg, c):
    fn = c["fn"]
    shape = tuple(c["shape"])
    if c["int_shape"] and len(shape) == 1:
        shape = shape[0]
    kw = {} if c["dtype"] is None else {"dtype": c["dtype"]}
    like = np.arange(6, dtype=c["like_dtype"]).reshape(2, 3) if c["like_dtype"] != "bool" else np.ones((2, 3), dtype=bool)
    try:
        if fn in ("zeros", "ones", "empty"):
            want = getattr(np, fn)(shape, **(kw or {"dtype": np.float32}))
            got = getattr(mg, fn)(shape, **kw)
        elif fn == "full":
            want = np.full(shape, c["fill"], **kw)
            got = mg.full(shape, c["fill"], **kw)
        elif fn in ("zeros_like", "ones_like", "empty_like"):
            k2 = dict(kw)
            if c["like_shape"] is not None:
                k2["shape"] = c["like_shape"]
            want = getattr(np, fn)(like, **k2)
            got = getattr(mg, fn)(mg.tensor(like) if c["float_args"] else like, **k2)
        elif fn == "full_like":
            k2 = dict(kw)
            if c["like_shape"] is not None:
                k2["shape"] = c["like_shape"]
            want = np.full_like(like, c["fill"], **k2)
            got = mg.full_like(like, c["fill"], **k2)
        elif fn == "arange":
            args = [c["a"], c["b"]] + ([c["step"]] if c["step"] is not None else [])
            if c["float_args"]:
                args[0] = float(args[0]) + 0.5
            want = np.arange(*args, **kw)
            got = mg.arange(*args, **kw)
        elif fn == "linspace":
            a, b, kx = _endpoints(c, c["a"], c["b"], kw)
            want = np.linspace(a, b, c["num"], endpoint=c["endpoint"], **kx)
            got = mg.linspace(a, b, c["num"], endpoint=c["endpoint"], **kx)
        elif fn == "logspace":
            a, b, kx = _endpoints(c, c["a"], c["b"] / 4.0, kw)
            want = np.logspace(a, b, c["num"], endpoint=c["endpoint"], base=c["base"], **kx)
            got = mg.logspace(a, b, c["num"], endpoint=c["endpoint"], base=c["base"], **kx)
        elif fn == "geomspace":
            a, b, kx = _endpoints(c, abs(c["a"]) + 1, abs(c["b"]) + 1, kw)
            want = np.geomspace(a, b, c["num"], endpoint=c["endpoint"], **kx)
            got = mg.geomspace(a, b, c["num"], endpoint=c["endpoint"], **kx)
        elif fn == "eye":
            N = abs(c["a"]) % 4
            want = np.eye(N, c["M"], c["k"], **kw)
            got = mg.eye(N, c["M"], c["k"], **kw)
        else:
            N = abs(c["a"]) % 4
            want = np.identity(N, **kw)
            got = mg.identity(N, **kw)
    except Exception as e:  # noqa: BLE001
        # both must reject: re-run numpy alone
        try:
            _ = _numpy_only(fn, c, shape, kw, like)
        except Exception:  # noqa: BLE001
            return None
        return Mismatch("creation_raised", f"mg.{fn}: {fmt_exc(e)} (numpy accepts the same arguments)")
    if not isinstance(got, mg.Tensor):
        return Mismatch("creation_type", f"mg.{fn} returned {type(got).__name__}")
    if got.dtype != want.dtype or got.shape != want.shape:
        return Mismatch("creation_meta", f"mg.{fn}: {got.dtype}{got.shape} vs numpy {want.dtype}{want.shape}")
    if not fn.startswith("empty") and not _eq(got.data, want):
        return Mismatch("creation_value", f"mg.{fn}: values differ from numpy")
    return None


def _numpy_only(fn, c, shape, kw, like):
    if fn in ("zeros", "ones", "empty"):
        return getattr(np, fn)(shape, **kw)
    if fn == "full":
        return np.full(shape, c["fill"], **kw)
    if fn.endswith("_like"):
        k2 = dict(kw)
        if c["like_shape"] is not None:
            k2["shape"] = c["like_shape"]
        return getattr(np, fn)(like, c["fill"], **k2) if fn == "full_like" else getattr(np, fn)(like, **k2)
    if fn == "arange":
        args = [c["a"], c["b"]] + ([c["step"]] if c["step"] is not None else [])
        if c["float_args"]:
            args[0] = float(args[0]) + 0.5  # (the very arguments check_creation passed)
        return np.arange(*args, **kw)
    if fn in ("linspace", "logspace", "geomspace") and (c.get("vec") or c.get("axis") is not None):
        a0, b0 = {"linspace": (c["a"], c["b"]), "logspace": (c["a"], c["b"] / 4.0), "geomspace": (abs(c["a"]) + 1, abs(c["b"]) + 1)}[fn]
        a, b, kx = _endpoints(c, a0, b0, kw)
        if fn == "logspace":
            kx["base"] = c["base"]
        return getattr(np, fn)(a, b, c["num"], endpoint=c["endpoint"], **kx)
    if fn == "linspace":
        return np.linspace(c["a"], c["b"], c["num"], endpoint=c["endpoint"], **kw)
    if fn == "logspace":
        return np.logspace(c["a"], c["b"] / 4.0, c["num"], endpoint=c["endpoint"], base=c["base"], **kw)
    if fn == "geomspace":
        return np.geomspace(abs(c["a"]) + 1, abs(c["b"]) + 1, c["num"], endpoint=c["endpoint"], **kw)
    if fn == "eye":
        return np.eye(abs(c["a"]) % 4, c["M"], c["k"], **kw)
    return np.identity(abs(c["a"]) % 4, **kw)


def _eq(a, b):
    a, b = np.asarray(a), np.asarray(b)
    if a.shape != b.shape:
        return False
    if a.dtype.kind in "OSU" or b.dtype.kind in "OSU":
        return bool(np.all(a == b))
    return bool(np.array_equal(a, b, equal_nan=True))


def check_case(case, rec=None):
    import mygrad as mg

    reset_mygrad()
    c = case
    if rec is not None:
        if c["fam"] == "creation":
            key = ["creation", c["fn"], c["dtype"], len(c["shape"]), c["like_shape"], c["step"], c["endpoint"], c["M"], c["k"]]
            nt = True
            labels = ["creation_" + c["fn"]]
        else:
            key = [c["fam"], c["entry"], c["src"], c["sdtype"], c["dtype"], c["constant"], c["copy"], c["ndmin"], c["layout"], len(c["shape"])]
            nt = c["dtype"] not in (None, "same") or c["src"] in ("ndarray",) or c["src"].startswith("tensor")
            labels = ["entry_" + c["entry"], "src_" + c["src"], "req_" + str(c["dtype"])]
        rec.note(key, nt, labels, sample=case)
    with np.errstate(all="ignore"):
        try:
            if c["fam"] == "construct":
                return check_construct(mg, c)
            if c["fam"] == "convert":
                return check_convert(mg, c)
            return check_creation(mg, c)
        except RecursionError:
            return Mismatch("raised", "RecursionError")


N = {"quick": 3000, "thorough": 50000}


def shard_plan(tier):
    return [f"s{i}" for i in range(16)]


def run_shard(shard, seed, tier):
    rec = Recorder()
    viol = drive(prop=PROPERTY, name="construction", strategy=cases(), check_case=lambda c: check_case(c, rec), rec=rec,
                 seed=seed, max_examples=N[tier])
    out = rec.result()
    out["violations"] = viol
    return out


def replay(check, case):
    return check_case(case)
