"""C09 — backprop through a partially cleared graph fails loudly, never silently."""

from __future__ import annotations

import numpy as np
from hypothesis import strategies as st

from vf import ir
from vf.common import Mismatch, Recorder, drive, fmt_exc, reset_mygrad
from vf.gen import (history_program, step_aug, step_fail, step_out, step_read, step_setitem, step_view)
from vf.checks.c04 import skeleton

PROPERTY = "C09"
RULE = (
    "Phase A: a C05-style history (views, reads, in-place updates) followed by >=2 terminals that share upstream "
    "tensors (L_1.., L_final; weighted sums over overlapping handle sets). Phase B (1-8 steps, >=1 clearing step): "
    "backward() on another terminal or clear_graph() on any tensor except L_final, in-place updates of shared "
    "tensors or their views, new operations re-using shared tensors, further backward calls. Phase C: "
    "L_final.backward(). Oracle: either InvalidBackprop is raised, or every gradient written by the final backward "
    "equals the complex-step reference gradient of L_final's forward computation *as recorded at the end of phase "
    "A* (NumPy reference on the phase-A prefix); a tensor whose memory was overwritten in phase B may only keep "
    "the gradient it had before the final backward; a tensor the recorded computation depends on may not end up "
    "without a gradient; any other exception type is a violation. Non-trivial = a clearing step followed by >=1 "
    "re-use or in-place update of a tensor shared with L_final before the final backward; distinct by skeleton."
)
ASSUMPTIONS = ["an InvalidBackprop raised by an intermediate backward in phase B is accepted and the history continues"]


@st.composite
def cases(draw):
    b = draw(history_program(max_steps=8, max_elems=12))
    r = b.ref
    live = [h for h in r.env if r.is_tensor[h] and not r.isint[h] and r.env[h].size > 0]
    nonconst = [h for h in live if not r.const[h]]
    pool = nonconst or live
    shared = [b.pick(pool) for _ in range(draw(st.integers(1, 2)))]

    def terminal(extra):
        terms = []
        for h in dict.fromkeys(shared + extra):
            kind = draw(st.sampled_from(["mul_w", "mul_w", "square", "self_mul"]))
            if kind == "mul_w":
                w = b.leaf("array", list(b.shape(h)), lo=-20, hi=20)
                m = b.op("multiply", [h, w])
            elif kind == "square":
                m = b.op("square", [h])
            else:
                m = b.op("multiply", [h, h])
            s = b.op("sum", [m]) if m is not None else None
            if s is not None:
                terms.append(s)
        if not terms:
            return None
        return terms[0] if len(terms) == 1 else b.op("add_sequence", terms)

    nterm = draw(st.integers(2, 3))
    Ls = []
    for _ in range(nterm):
        extra = [b.pick(pool)] if draw(st.booleans()) else []
        L = terminal(extra)
        if L is not None:
            Ls.append(L)
    while len(Ls) < 2:
        extra_L = b.op("sum", [shared[0]])
        Ls.append(extra_L if extra_L is not None else shared[0])
    Lf = Ls[draw(st.integers(0, len(Ls) - 1))]
    others = [L for L in Ls if L != Lf]
    endA = len(b.stmts)
    # L_final itself is never an in-place target in phase B (overwriting it would re-record it)
    try:
        b.ref.env[Lf].flags.writeable = False
    except ValueError:
        pass
    # phase B
    nB = draw(st.integers(1, 8))
    cleared = False
    for i in range(nB):
        kind = draw(st.sampled_from(["backward", "clear", "inplace", "inplace", "reuse", "reuse", "view", "fail"]))
        if (i == nB - 1 and not cleared) or kind == "backward":
            if others and draw(st.integers(0, 3)) > 0:
                t = others[draw(st.integers(0, len(others) - 1))]
            else:
                cands = [h for h in b.ref.env if b.ref.is_tensor[h] and not b.ref.const[h] and h != Lf]
                t = b.pick(cands)
            if t is None:
                continue
            b.stmts.append({"k": "backward", "h": t})
            cleared = True
        elif kind == "clear":
            cands = [h for h in b.ref.env if b.ref.is_tensor[h] and h != Lf]
            t = b.pick(cands)
            if t is None:
                continue
            b.stmts.append({"k": "clear", "h": t})
            cleared = True
        elif kind == "inplace":
            draw(st.sampled_from([step_setitem, step_setitem, step_aug, step_out]))(b)
        elif kind == "reuse":
            step_read(b)
        elif kind == "fail":
            # a statement NumPy rejects: must not change what the final backward does (C13); half of them are ops on a
            # tensor the graphs share
            if draw(st.booleans()):
                step_fail(b, kind=draw(st.sampled_from(["bad_constant_flag", "op_shape", "matmul_shape", "bad_axis", "bad_dtype",
                                                        "out_readonly_array"])), a=shared[0])
            else:
                step_fail(b)
            tgt_ = b.stmts[-1]["stmt"].get("target") if b.stmts[-1]["k"] == "fail" else None
            if tgt_ is not None and (tgt_ == Lf or (b.ref.env[tgt_].size > 0 and np.shares_memory(b.ref.env[tgt_], b.ref.env[Lf]))):
                b.stmts.pop()  # (L_final's memory is read-only only in the model, see above)
        else:
            step_view(b)
    return {"prog": b.prog, "L": Lf, "endA": endA, "shared": shared}


def check_case(case, rec=None):
    import mygrad as mg
    import mygrad.errors

    prog, L, endA = case["prog"], case["L"], case["endA"]
    stmts = prog["stmts"]
    # reference: the forward computation as recorded at the end of phase A
    exp = ir.expected_after_backward(prog, L, upto=endA)
    refA = exp.ref
    # which memory families are overwritten in phase B
    full = ir.RefRun(prog).run()
    writtenB = set()  # families overwritten in phase B while the sharing model is still exact (before any clearing)
    for s in stmts[endA:]:
        if s["k"] in ("backward", "clear"):
            break
        if s["k"] == "inplace" and s["kind"] != "shape":
            writtenB.add(full.owner[s["target"]])
    shapedB = {s["target"] for s in stmts[endA:] if s["k"] == "inplace" and s["kind"] == "shape"}
    if rec is not None:
        labels = []
        seen_clear = False
        nontrivial = False
        for s in stmts[endA:]:
            if s["k"] in ("backward", "clear"):
                seen_clear = True
                labels.append("B_" + s["k"])
            elif seen_clear and s["k"] == "inplace":
                labels.append("inplace_after_clear")
                if (full.owner[s["target"]], 0) in exp.ref.deps(L) or any(tok[0] == full.owner[s["target"]] for tok in exp.ref.deps(L)):
                    nontrivial = True
            elif seen_clear and s["k"] == "op":
                if any(any(tok[0] == full.owner.get(a) for tok in exp.ref.deps(L)) for a in s["args"]):
                    labels.append("reuse_after_clear")
                    nontrivial = True
        rec.note([skeleton({"stmts": [s for s in stmts if s["k"] in ("leaf", "op", "inplace")]}),
                  [(s["k"], s.get("h")) for s in stmts[endA:] if s["k"] in ("backward", "clear")], L], nontrivial,
                 sorted(set(labels)), sample={"L": L, "endA": endA, "stmts": stmts})

    reset_mygrad()
    run = ir.MgRun(prog)
    outcome_labels = []
    dataA = None
    for idx, s in enumerate(stmts):
        if idx == endA:
            dataA = {h: (t.data, t.data.tobytes()) for h, t in run.env.items() if isinstance(t, mg.Tensor)}
        if s["k"] == "fail":
            try:
                run.exec(idx, s["stmt"])
            except Exception:  # noqa: BLE001 - expected; (a statement that does not fail is C13's subject)
                pass
            run.env.pop(s["stmt"].get("h"), None)
            outcome_labels.append("phaseB_failing_stmt")
            continue
        try:
            run.exec(idx, s)
        except mg.errors.InvalidBackprop:
            if s["k"] == "backward":
                outcome_labels.append("intermediate_backward_refused")
                continue
            return Mismatch("raised", f"stmt {idx} ({s['k']}): InvalidBackprop outside backward")
        except Exception as e:  # noqa: BLE001
            if idx >= endA and s["k"] in ("op", "inplace") and s.get("h", s.get("target")) is not None:
                # phase-B statements operate on tensors whose graphs were (partially) cleared; a statement that fails
                # here ends the history early - the final backward is still examined
                outcome_labels.append("phaseB_stmt_raised")
                # later statements may reference the missing result
                break
            return Mismatch("raised", f"stmt {idx} ({s['k']} {s.get('op', s.get('kind', ''))}): {fmt_exc(e)}")
    if dataA is None:
        dataA = {h: (t.data, t.data.tobytes()) for h, t in run.env.items() if isinstance(t, mg.Tensor)}
    Lt = run.env[L]
    before = {h: (None if t.grad is None else t.grad.tobytes()) for h, t in run.env.items() if isinstance(t, mg.Tensor)}
    try:
        Lt.backward()
    except mg.errors.InvalidBackprop:
        if rec is not None:
            rec.label("outcome_InvalidBackprop")
        return None
    except Exception as e:  # noqa: BLE001
        return Mismatch("final_backward_wrong_exception", fmt_exc(e))
    if rec is not None:
        rec.label("outcome_gradients")
        for lab in set(outcome_labels):
            rec.label(lab)
    rtol, atol = ir.grad_tol(exp)
    for h, t in run.env.items():
        if not isinstance(t, mg.Tensor) or h not in refA.env:
            continue
        g = t.grad
        gb = None if g is None else g.tobytes()
        e = exp.grads.get(h)
        o = refA.owner[h]
        unchanged = gb == before.get(h)
        dA = dataA.get(h)
        if dA is None or t.data is not dA[0] or t.data.tobytes() != dA[1] or h in shapedB or o in writtenB:
            # (an in-place update always re-homes the tensor's data in a new ndarray)
            # this tensor now holds post-recording values: the recorded computation cannot reach it
            if not unchanged and g is not None:
                return Mismatch("grad_from_post_mutation_values",
                                f"h{h} was overwritten in place after L was recorded, yet L.backward() wrote h{h}.grad="
                                f"{np.asarray(g).ravel()[:4].tolist()} (recorded-computation gradient w.r.t. the old contents: "
                                f"{None if e is None else e.ravel()[:4].tolist()})", h=h)
            continue
        if e is None:
            if not unchanged and g is not None and t.size > 0:
                return Mismatch("grad_written_to_unrelated", f"h{h} is not upstream of the recorded L but received a new gradient", h=h)
            continue
        if g is None:
            if np.any(e) and h not in exp.lenient and o == h:
                return Mismatch("grad_missing", f"h{h}: the recorded computation depends on it but no gradient was written and no error raised", h=h)
            continue
        if unchanged and not np.any(e):
            continue  # identically-zero reference gradient and nothing was written: "no contribution"
        if exp.kinks or g.shape != e.shape:
            if g.shape != e.shape:
                return Mismatch("grad_shape", f"h{h}: {g.shape} vs {e.shape}", h=h)
            continue
        if not np.allclose(g, e, rtol=rtol, atol=atol):
            return Mismatch("grad_not_of_recorded_computation",
                            f"h{h}: L.backward() gave {np.asarray(g).ravel()[:4].tolist()}, the recorded forward computation "
                            f"has gradient {e.ravel()[:4].tolist()}", h=h)
    return None


N = {"quick": 800, "thorough": 8000}


def shard_plan(tier):
    return [f"s{i}" for i in range(16)]


def run_shard(shard, seed, tier):
    rec = Recorder()
    viol = drive(prop=PROPERTY, name="partial_clear", strategy=cases(), check_case=lambda c: check_case(c, rec), rec=rec,
                 seed=seed, max_examples=N[tier])
    out = rec.result()
    out["violations"] = viol
    return out


def replay(check, case):
    return check_case(case)
