"""C11 — every public entry point to an operation behaves identically."""

from __future__ import annotations

import operator

import numpy as np
from hypothesis import strategies as st

from vf.common import Mismatch, Recorder, drive, fmt_exc, reset_mygrad
from vf.gen import draw_shape, shape_variant

PROPERTY = "C11"
RULE = (
    "For a drawn operation and operands (float64/float32/float16 tensors with drawn constant flags, shapes from "
    "broadcast families incl. 0-d, python-scalar / ndarray partners) every available spelling is executed on equal "
    "inputs: mg.f, np.f on tensors, Tensor method (args unpacked or as a tuple), operator, reflected operator with an "
    "ndarray / python scalar on the left, augmented operator, mg.f(out=Tensor), mg.f(out=ndarray), np.f(out=Tensor), "
    "where= and dtype= through both the mg and the np route, and x**c vs mg.power for scalar c in {0, 0.5, 1, 1.5, 2, 3} (python / 0-d / NumPy scalar). Oracle: all spellings give "
    "equal values (bit-wise; 4 ulp for the x**2 short-cut), equal dtype, equal constant flag and, after "
    "backward(g) with one drawn g, equal operand gradients. Second family: every member of the bool-only / "
    "no-diff registries applied to tensors returns a plain ndarray / scalar equal to NumPy on the data; every member "
    "of the const-only registry (floor_divide, remainder, mod, fmod, divmod, rint, sign, floor, ceil, trunc, and //) "
    "raises ValueError if any operand or out= is a non-constant tensor and otherwise equals NumPy. Non-trivial = a "
    "comparison involving a non-default keyword or a reflected/augmented/out= spelling; distinct by (op, spelling set, "
    "shapes, dtypes, flags)."
)
ASSUMPTIONS = ["baseline spelling is mg.f(a, b); values in [0.5, 4.5] so every ufunc is inside its domain"]

BINARY = {"add": operator.add, "subtract": operator.sub, "multiply": operator.mul, "divide": operator.truediv, "power": operator.pow,
          "maximum": None, "minimum": None, "arctan2": None, "logaddexp": None, "matmul": operator.matmul}
AUG = {"add": operator.iadd, "subtract": operator.isub, "multiply": operator.imul, "divide": operator.itruediv, "power": operator.ipow}
UNARY = {"negative": operator.neg, "positive": operator.pos, "absolute": None, "exp": None, "log": None, "sqrt": None, "sin": None,
         "tanh": None, "square": None, "reciprocal": None, "arctan": None, "cbrt": None, "log1p": None}
METHODS = ["sum", "mean", "prod", "max", "min", "var", "std", "cumsum", "cumprod", "reshape", "transpose", "squeeze", "swapaxes",
           "ravel", "clip", "moveaxis", "repeat", "expand_dims"]


@st.composite
def cases(draw):
    fam = draw(st.sampled_from(["binary", "binary", "unary", "method", "method", "pow_special", "nodiff", "constonly"]))
    dtype = draw(st.sampled_from(["float64", "float64", "float32", "float16"]))
    shape = draw_shape(draw, max_ndim=3, max_side=3, cap=12)
    n = int(np.prod(shape)) if shape else 1

    def vals(k):
        return [draw(st.integers(1, 9)) / 2.0 for _ in range(k)]

    c = {"fam": fam, "dtype": dtype, "shape": shape, "a": vals(n), "ca": draw(st.sampled_from([None, None, True, False]))}
    gseed = vals(64)
    c["g"] = gseed
    if fam == "binary":
        c["op"] = draw(st.sampled_from(sorted(BINARY)))
        if c["op"] == "matmul":
            k = draw(st.integers(1, 3))
            c["shape"] = [2, k]
            c["a"] = vals(2 * k)
            c["bshape"] = [k, 2]
            c["b"] = vals(2 * k)
            c["bkind"] = "tensor"
        else:
            c["bkind"] = draw(st.sampled_from(["tensor", "tensor", "array", "pyfloat", "pyint"]))
            bshape = shape if draw(st.booleans()) else shape_variant(draw, shape)
            c["bshape"] = bshape if c["bkind"] in ("tensor", "array") else []
            c["b"] = vals(int(np.prod(c["bshape"])) if c["bshape"] else 1)
        c["cb"] = draw(st.sampled_from([None, None, True]))
        c["where"] = draw(st.lists(st.booleans(), min_size=n, max_size=n)) if draw(st.integers(0, 2)) == 0 else None
        c["kw_dtype"] = draw(st.sampled_from([None, None, "float64", "float32"]))
    elif fam == "unary":
        c["op"] = draw(st.sampled_from(sorted(UNARY)))
        c["where"] = draw(st.lists(st.booleans(), min_size=n, max_size=n)) if draw(st.integers(0, 2)) == 0 else None
        c["kw_dtype"] = draw(st.sampled_from([None, None, "float64", "float32"]))
    elif fam == "method":
        c["op"] = draw(st.sampled_from(METHODS))
        nd = len(shape)
        c["axis"] = None if nd == 0 or draw(st.integers(0, 2)) == 0 else draw(st.integers(-nd, nd - 1))
        c["keepdims"] = draw(st.booleans())
        c["perm"] = list(draw(st.permutations(list(range(nd)))))
        c["ddof"] = draw(st.sampled_from([0, 0, 1]))
    elif fam == "pow_special":
        c["exp"] = draw(st.sampled_from([1, 2, 1.0, 2.0, 1, 2, 1.0, 2.0, 0.5, 3, 0, 3.0, 1.5]))  # (short-cut candidates besides 1 and 2)
        c["expkind"] = draw(st.sampled_from(["py", "np0d", "npscalar"]))
    elif fam == "nodiff":
        c["op"] = draw(st.sampled_from(["isnan", "isfinite", "isinf", "signbit", "logical_not", "logical_and", "logical_or",
                                        "logical_xor", "greater", "greater_equal", "less", "less_equal", "equal", "not_equal",
                                        "allclose", "isclose", "may_share_memory", "shares_memory", "shape", "result_type",
                                        "min_scalar_type", "can_cast", "copyto", "any", "argmax", "argmin", "cmp_operator"]))
        c["b"] = vals(n)
        c["cmp"] = draw(st.sampled_from(["lt", "le", "gt", "ge", "eq", "ne"]))
    else:
        c["op"] = draw(st.sampled_from(["floor_divide", "remainder", "mod", "fmod", "divmod", "rint", "sign", "floor", "ceil",
                                        "trunc", "floordiv_operator", "rfloordiv_operator"]))
        c["b"] = vals(n)
        c["which"] = draw(st.sampled_from(["none_nonconst", "first", "second", "out", "both"]))
    return c


def _arr(c, key="a", shape_key="shape"):
    return np.array(c[key], dtype=c["dtype"]).reshape(c[shape_key])


def _g(c, shape):
    n = int(np.prod(shape)) if len(shape) else 1
    g = np.array((c["g"] * (n // 64 + 1))[:n], dtype=np.float64).reshape(shape)
    return g


def _cmp_results(name, base, other, ulp=0):
    """base/other: (value ndarray, dtype, constant, {operand: grad})"""
    (v0, d0, c0, g0), (v1, d1, c1, g1) = base, other
    if v0.shape != v1.shape:
        return f"{name}: shape {v1.shape} vs {v0.shape}"
    if d0 != d1:
        return f"{name}: dtype {d1} vs {d0}"
    if c0 is not c1:
        return f"{name}: constant {c1} vs {c0}"
    if ulp == 0:
        if not np.array_equal(v0, v1, equal_nan=True):
            return f"{name}: values differ {v1.ravel()[:4].tolist()} vs {v0.ravel()[:4].tolist()}"
    else:
        tol = ulp * np.finfo(v0.dtype).eps
        if not np.allclose(v0, v1, rtol=tol, atol=0, equal_nan=True):
            return f"{name}: values differ beyond {ulp} ulp"
    for k in g0:
        a, b = g0[k], g1.get(k)
        if (a is None) != (b is None):
            return f"{name}: gradient of operand {k} is {'None' if b is None else 'set'} vs {'None' if a is None else 'set'}"
        if a is None:
            continue
        if a.dtype != b.dtype or a.shape != b.shape:
            return f"{name}: gradient meta of operand {k} differs ({b.dtype}{b.shape} vs {a.dtype}{a.shape})"
        tol = max(ulp, 2) * np.finfo(a.dtype).eps
        if not np.allclose(a, b, rtol=tol, atol=tol, equal_nan=True):
            return f"{name}: gradient of operand {k} differs {b.ravel()[:4].tolist()} vs {a.ravel()[:4].tolist()}"
    return None


def _run(mg, build, call, c, masked=None):
    """build() -> dict of fresh operands; call(ops) -> result tensor. Returns the comparison tuple."""
    ops = build()
    res = call(ops)
    if not isinstance(res, mg.Tensor):
        raise TypeError(f"spelling returned {type(res).__name__}, not a Tensor")
    val = np.array(res.data)
    if masked is not None:
        val = np.where(np.broadcast_to(masked, val.shape), val, 0)
    if not res.constant:
        res.backward(_g(c, res.shape))
    grads = {k: (None if not isinstance(t, mg.Tensor) or t.grad is None else np.array(t.grad)) for k, t in ops.items() if k in ("a", "b")}
    return val, res.dtype, res.constant, grads


def check_case(case, rec=None):
    import mygrad as mg

    reset_mygrad()
    c = case
    fam = c["fam"]
    labels = ["fam_" + fam] + (["op_" + c["op"]] if "op" in c else [])
    spellings_run = []
    mm = None
    try:
        with np.errstate(all="ignore"):
            if fam == "binary":
                mm = _binary(mg, c, spellings_run)
            elif fam == "unary":
                mm = _unary(mg, c, spellings_run)
            elif fam == "method":
                mm = _method(mg, c, spellings_run)
            elif fam == "pow_special":
                mm = _pow(mg, c, spellings_run)
            elif fam == "nodiff":
                mm = _nodiff(mg, c, spellings_run)
            else:
                mm = _constonly(mg, c, spellings_run)
    except _Skip:
        mm = None
    if rec is not None:
        nt = any(s not in ("mg", "np") for s in spellings_run)
        rec.note([fam, c.get("op"), sorted(set(spellings_run)), c["shape"], c.get("bshape"), c["dtype"], c.get("ca"), c.get("cb"),
                  c.get("bkind"), c.get("kw_dtype"), c.get("where") is not None, c.get("which"), c.get("exp"), c.get("axis")],
                 nt, labels + ["sp_" + s for s in set(spellings_run)], sample=case)
    return mm


class _Skip(Exception):
    pass


def _binary(mg, c, done):
    name = c["op"]
    f_mg, f_np = getattr(mg, name), getattr(np, name)

    def build():
        a = mg.tensor(_arr(c), constant=c["ca"])
        if c["bkind"] == "tensor":
            b = mg.tensor(_arr(c, "b", "bshape"), constant=c["cb"])
        elif c["bkind"] == "array":
            b = _arr(c, "b", "bshape")
        elif c["bkind"] == "pyfloat":
            b = float(c["b"][0])
        else:
            b = int(c["b"][0] * 2)
        return {"a": a, "b": b}

    try:
        base = _run(mg, build, lambda o: f_mg(o["a"], o["b"]), c)
    except Exception as e:  # noqa: BLE001
        return Mismatch("baseline_raised", f"mg.{name}: {fmt_exc(e)}")
    done.append("mg")
    out_shape = base[0].shape

    def attempt(label, call, ulp=0, masked=None, base_=None):
        done.append(label)
        try:
            got = _run(mg, build, call, c, masked=masked)
        except Exception as e:  # noqa: BLE001
            return Mismatch("spelling_raised", f"{name} via {label}: {fmt_exc(e)}")
        d = _cmp_results(f"{name} via {label}", base_ or base, got, ulp)
        return Mismatch("spelling_differs", d) if d else None

    m = attempt("np", lambda o: f_np(o["a"], o["b"]))
    if m:
        return m
    opf = BINARY[name]
    if opf is not None:
        m = attempt("operator", lambda o: opf(o["a"], o["b"]), ulp=4 if name == "power" else 0)
        if m:
            return m
    # reflected: non-tensor on the left
    if c["bkind"] != "tensor" and name != "matmul":
        try:
            base_r = _run(mg, build, lambda o: f_mg(o["b"], o["a"]), c)
        except Exception as e:  # noqa: BLE001
            return Mismatch("baseline_raised", f"mg.{name}(other, tensor): {fmt_exc(e)}")
        if opf is not None:
            m = attempt("reflected_operator", lambda o: opf(o["b"], o["a"]), base_=base_r)
            if m:
                return m
        m = attempt("np_reflected", lambda o: f_np(o["b"], o["a"]), base_=base_r)
        if m:
            return m
    same_shape = tuple(c["shape"]) == out_shape
    if name in AUG and same_shape and name != "matmul":
        # augmented assignment: x op= y   (x is a fresh copy of a that is itself derived from a, so a's gradient is observable)
        def aug(o):
            x = +o["a"]
            x2 = AUG[name](x, o["b"])
            if x2 is not x:
                raise AssertionError("augmented operator returned a different object")
            return x

        def plain(o):
            return f_mg(+o["a"], o["b"])

        try:
            base_aug = _run(mg, build, plain, c)
        except Exception as e:  # noqa: BLE001
            return Mismatch("baseline_raised", fmt_exc(e))
        # (an in-place target keeps its own dtype and its own constant flag: only comparable when they coincide)
        target_const = bool(c["ca"]) if c["ca"] is not None else False
        if base_aug[1] == np.dtype(c["dtype"]) and base_aug[2] is target_const:
            m = attempt("augmented", aug, base_=base_aug)
            if m:
                return m
    if name != "matmul":
        # out= targets
        def out_tensor(route):
            def call(o):
                t = mg.tensor(np.zeros(out_shape, dtype=base[1]), constant=base[2])
                r = route(o["a"], o["b"], out=t)
                if r is not t:
                    raise AssertionError("out=Tensor call returned a different object")
                return t
            return call

        if not base[2]:  # an in-place target keeps its own flag: use a target with the baseline's flag
            m = attempt("mg_out_tensor", out_tensor(f_mg)) or attempt("np_out_tensor", out_tensor(f_np))
            if m:
                return m

        def out_array(o):
            arr = np.zeros(out_shape, dtype=base[1])
            r = f_mg(o["a"], o["b"], out=arr)
            if r.data is not arr and not np.shares_memory(r.data, arr):
                raise AssertionError("out=ndarray: the result does not live in the given array")
            return r

        m = attempt("mg_out_ndarray", out_array)
        if m:
            return m
        if c.get("where") is not None and same_shape:
            mask = np.array(c["where"], dtype=bool).reshape(c["shape"])
            try:
                base_w = _run(mg, build, lambda o: f_mg(o["a"], o["b"], where=mask), c, masked=mask)
            except Exception as e:  # noqa: BLE001
                return Mismatch("baseline_raised", f"mg.{name}(where=): {fmt_exc(e)}")
            m = attempt("np_where", lambda o: f_np(o["a"], o["b"], where=mask), masked=mask, base_=base_w)
            if m:
                return m
        if c.get("kw_dtype"):
            try:
                base_d = _run(mg, build, lambda o: f_mg(o["a"], o["b"], dtype=c["kw_dtype"]), c)
            except Exception as e:  # noqa: BLE001
                return Mismatch("baseline_raised", f"mg.{name}(dtype=): {fmt_exc(e)}")
            m = attempt("np_dtype", lambda o: f_np(o["a"], o["b"], dtype=c["kw_dtype"]), base_=base_d)
            if m:
                return m
            if base_d[1] != np.dtype(c["kw_dtype"]):
                return Mismatch("dtype_kw_ignored", f"mg.{name}(dtype={c['kw_dtype']}) returned {base_d[1]}")
    return None


def _unary(mg, c, done):
    name = c["op"]
    f_mg, f_np = getattr(mg, name), getattr(np, name)

    def build():
        return {"a": mg.tensor(_arr(c), constant=c["ca"])}

    try:
        base = _run(mg, build, lambda o: f_mg(o["a"]), c)
    except Exception as e:  # noqa: BLE001
        return Mismatch("baseline_raised", f"mg.{name}: {fmt_exc(e)}")
    done.append("mg")

    def attempt(label, call, masked=None, base_=None):
        done.append(label)
        try:
            got = _run(mg, build, call, c, masked=masked)
        except Exception as e:  # noqa: BLE001
            return Mismatch("spelling_raised", f"{name} via {label}: {fmt_exc(e)}")
        d = _cmp_results(f"{name} via {label}", base_ or base, got)
        return Mismatch("spelling_differs", d) if d else None

    m = attempt("np", lambda o: f_np(o["a"]))
    if m:
        return m
    if UNARY[name] is not None:
        m = attempt("operator", lambda o: UNARY[name](o["a"]))
        if m:
            return m
    if not base[2]:
        def out_t(route):
            def call(o):
                t = mg.tensor(np.zeros(base[0].shape, dtype=base[1]))
                r = route(o["a"], out=t)
                if r is not t:
                    raise AssertionError("out=Tensor call returned a different object")
                return t
            return call

        m = attempt("mg_out_tensor", out_t(f_mg)) or attempt("np_out_tensor", out_t(f_np))
        if m:
            return m
    if c.get("where") is not None:
        mask = np.array(c["where"], dtype=bool).reshape(c["shape"])
        try:
            base_w = _run(mg, build, lambda o: f_mg(o["a"], where=mask), c, masked=mask)
        except Exception as e:  # noqa: BLE001
            return Mismatch("baseline_raised", f"mg.{name}(where=): {fmt_exc(e)}")
        m = attempt("np_where", lambda o: f_np(o["a"], where=mask), masked=mask, base_=base_w)
        if m:
            return m
    if c.get("kw_dtype"):
        try:
            base_d = _run(mg, build, lambda o: f_mg(o["a"], dtype=c["kw_dtype"]), c)
        except Exception as e:  # noqa: BLE001
            return Mismatch("baseline_raised", f"mg.{name}(dtype=): {fmt_exc(e)}")
        m = attempt("np_dtype", lambda o: f_np(o["a"], dtype=c["kw_dtype"]), base_=base_d)
        if m:
            return m
    if name == "absolute" and not base[2]:
        # op-specific keyword (nan_to_num) must survive every route; operand contains exact zeros
        def build0():
            v = _arr(c).copy()
            v.reshape(-1)[::2] = 0
            return {"a": mg.tensor(v, constant=c["ca"])}

        def run0(call):
            return _run(mg, build0, call, c)

        try:
            b0 = run0(lambda o: mg.absolute(o["a"], nan_to_num=False))
        except Exception as e:  # noqa: BLE001
            return Mismatch("baseline_raised", f"mg.absolute(nan_to_num=False): {fmt_exc(e)}")
        for label, call in [
            ("abs_alias_kw", lambda o: mg.abs(o["a"], nan_to_num=False)),
            ("mg_out_tensor_kw", lambda o: mg.absolute(o["a"], out=mg.tensor(np.zeros(b0[0].shape, dtype=b0[1])), nan_to_num=False)),
            ("mg_out_ndarray_kw", lambda o: mg.absolute(o["a"], out=np.zeros(b0[0].shape, dtype=b0[1]), nan_to_num=False)),
        ]:
            done.append(label)
            try:
                got = run0(call)
            except Exception as e:  # noqa: BLE001
                return Mismatch("spelling_raised", f"absolute via {label}: {fmt_exc(e)}")
            d = _cmp_results(f"absolute(nan_to_num=False) via {label}", b0, got)
            if d:
                return Mismatch("spelling_differs", d)
    return None


def _method(mg, c, done):
    name = c["op"]
    shape = c["shape"]
    nd = len(shape)
    ax, kd = c["axis"], c["keepdims"]
    size = int(np.prod(shape)) if shape else 1

    def build():
        return {"a": mg.tensor(_arr(c), constant=c["ca"])}

    sp = {}
    if name in ("sum", "mean", "prod", "max", "min"):
        sp = {"mg": lambda o: getattr(mg, name)(o["a"], axis=ax, keepdims=kd), "np": lambda o: getattr(np, name)(o["a"], axis=ax, keepdims=kd),
              "method": lambda o: getattr(o["a"], name)(axis=ax, keepdims=kd), "method_positional": lambda o: getattr(o["a"], name)(ax, kd)}
        if name in ("max", "min"):
            sp["np_a" + name] = lambda o: getattr(np, "a" + name)(o["a"], axis=ax, keepdims=kd)
    elif name in ("var", "std"):
        if size - c["ddof"] <= 0 or (ax is not None and shape[ax] - c["ddof"] <= 0):
            raise _Skip()
        sp = {"mg": lambda o: getattr(mg, name)(o["a"], axis=ax, ddof=c["ddof"], keepdims=kd),
              "np": lambda o: getattr(np, name)(o["a"], axis=ax, ddof=c["ddof"], keepdims=kd),
              "method": lambda o: getattr(o["a"], name)(axis=ax, ddof=c["ddof"], keepdims=kd),
              # documented positional order of both the function and the method: (axis, ddof, keepdims)
              "mg_positional": lambda o: getattr(mg, name)(o["a"], ax, c["ddof"], kd),
              "method_positional": lambda o: getattr(o["a"], name)(ax, c["ddof"], kd)}
    elif name in ("cumsum", "cumprod"):
        sp = {"mg": lambda o: getattr(mg, name)(o["a"], axis=ax), "np": lambda o: getattr(np, name)(o["a"], axis=ax),
              "method": lambda o: getattr(o["a"], name)(axis=ax)}
    elif name == "reshape":
        new = [size] if nd != 1 else [1, size]
        sp = {"mg": lambda o: mg.reshape(o["a"], tuple(new)), "np": lambda o: np.reshape(o["a"], tuple(new)),
              "method_tuple": lambda o: o["a"].reshape(tuple(new)), "method_unpacked": lambda o: o["a"].reshape(*new)}
    elif name == "transpose":
        perm = c["perm"]
        sp = {"mg": lambda o: mg.transpose(o["a"], *perm) if perm else mg.transpose(o["a"]), "np": lambda o: np.transpose(o["a"], perm if perm else None),
              "method_tuple": lambda o: o["a"].transpose(tuple(perm)) if perm else o["a"].transpose(),
              "method_unpacked": lambda o: o["a"].transpose(*perm)}
        if perm == list(range(nd))[::-1]:
            sp["T"] = lambda o: o["a"].T
    elif name == "squeeze":
        sp = {"mg": lambda o: mg.squeeze(o["a"]), "np": lambda o: np.squeeze(o["a"]), "method": lambda o: o["a"].squeeze()}
    elif name == "swapaxes":
        if nd < 2:
            raise _Skip()
        sp = {"mg": lambda o: mg.swapaxes(o["a"], 0, -1), "np": lambda o: np.swapaxes(o["a"], 0, -1), "method": lambda o: o["a"].swapaxes(0, -1)}
    elif name == "moveaxis":
        if nd < 2:
            raise _Skip()
        sp = {"mg": lambda o: mg.moveaxis(o["a"], 0, -1), "np": lambda o: np.moveaxis(o["a"], 0, -1), "method": lambda o: o["a"].moveaxis(0, -1)}
    elif name == "ravel":
        sp = {"mg": lambda o: mg.ravel(o["a"]), "np": lambda o: np.ravel(o["a"]), "method": lambda o: o["a"].ravel()}
    elif name == "clip":
        sp = {"mg": lambda o: mg.clip(o["a"], 1.0, 3.0), "np": lambda o: np.clip(o["a"], 1.0, 3.0), "method": lambda o: o["a"].clip(1.0, 3.0)}
    elif name == "repeat":
        sp = {"mg": lambda o: mg.repeat(o["a"], 2, axis=ax), "np": lambda o: np.repeat(o["a"], 2, axis=ax), "method": lambda o: o["a"].repeat(2, axis=ax)}
    elif name == "expand_dims":
        sp = {"mg": lambda o: mg.expand_dims(o["a"], 0), "np": lambda o: np.expand_dims(o["a"], 0), "getitem_newaxis": lambda o: o["a"][np.newaxis]}
    base = None
    for label, call in sp.items():
        if label.startswith("method") and not hasattr(mg.Tensor, name):
            continue
        done.append(label)
        try:
            got = _run(mg, build, call, c)
        except AttributeError as e:
            if label.startswith("method"):
                continue  # no such method on Tensor: nothing to compare
            return Mismatch("spelling_raised", f"{name} via {label}: {fmt_exc(e)}")
        except Exception as e:  # noqa: BLE001
            return Mismatch("spelling_raised", f"{name} via {label}: {fmt_exc(e)}")
        if base is None:
            base = got
            continue
        d = _cmp_results(f"{name} via {label}", base, got)
        if d:
            return Mismatch("spelling_differs", d)
    return None


def _pow(mg, c, done):
    e = c["exp"]
    ev = {"py": e, "np0d": np.array(e), "npscalar": np.float64(e) if isinstance(e, float) else np.int64(e)}[c["expkind"]]

    def build():
        return {"a": mg.tensor(_arr(c), constant=c["ca"])}

    try:
        base = _run(mg, build, lambda o: mg.power(o["a"], ev), c)
        done.append("mg")
        done.append("pow_operator")
        got = _run(mg, build, lambda o: o["a"] ** ev, c)
    except Exception as ex:  # noqa: BLE001
        return Mismatch("spelling_raised", f"x ** {e!r}: {fmt_exc(ex)}")
    d = _cmp_results(f"x ** {e!r} ({c['expkind']}) vs mg.power", base, got, ulp=4)
    return Mismatch("spelling_differs", d) if d else None


def _nodiff(mg, c, done):
    name = c["op"]
    a_arr, b_arr = _arr(c), np.array(c["b"], dtype=c["dtype"]).reshape(c["shape"])
    a, b = mg.tensor(a_arr, constant=c["ca"]), mg.tensor(b_arr)
    done.append("np_nodiff")
    try:
        if name == "cmp_operator":
            f = getattr(operator, c["cmp"])
            got, want = f(a, b), f(a_arr, b_arr)
        elif name in ("isnan", "isfinite", "isinf", "signbit", "logical_not"):
            got, want = getattr(np, name)(a), getattr(np, name)(a_arr)
        elif name in ("shape", "min_scalar_type"):
            got, want = getattr(np, name)(a), getattr(np, name)(a_arr)
        elif name == "result_type":
            got, want = np.result_type(a, b), np.result_type(a_arr, b_arr)
        elif name == "can_cast":
            got, want = np.can_cast(a.dtype, np.float64), np.can_cast(a_arr.dtype, np.float64)
        elif name == "copyto":
            dst, dst2 = np.zeros_like(a_arr), np.zeros_like(a_arr)
            np.copyto(dst, a)
            np.copyto(dst2, a_arr)
            got, want = dst, dst2
        elif name in ("any",):
            got, want = np.any(a), np.any(a_arr)
        elif name in ("argmax", "argmin"):
            got, want = getattr(np, name)(a), getattr(np, name)(a_arr)
        else:
            got, want = getattr(np, name)(a, b), getattr(np, name)(a_arr, b_arr)
    except Exception as e:  # noqa: BLE001
        return Mismatch("nodiff_raised", f"np.{name} on tensors: {fmt_exc(e)}")
    if isinstance(got, mg.Tensor):
        return Mismatch("nodiff_returned_tensor", f"np.{name} applied to tensors returned a Tensor")
    if type(got) is not type(want) and not (isinstance(got, np.ndarray) and isinstance(want, np.ndarray)):
        return Mismatch("nodiff_type", f"np.{name}: returned {type(got).__name__}, numpy gives {type(want).__name__}")
    if not np.array_equal(np.asarray(got), np.asarray(want)):
        return Mismatch("nodiff_value", f"np.{name}: differs from numpy on the data")
    return None


def _constonly(mg, c, done):
    name = c["op"]
    a_arr, b_arr = _arr(c), np.array(c["b"], dtype=c["dtype"]).reshape(c["shape"])
    which = c["which"]
    binary = name in ("floor_divide", "remainder", "mod", "fmod", "divmod", "floordiv_operator", "rfloordiv_operator")
    if not binary and which in ("second", "both"):
        which = "first"
    a = mg.tensor(a_arr, constant=which not in ("first", "both"))
    b = mg.tensor(b_arr, constant=which not in ("second", "both"))
    out = None
    if which == "out" and name not in ("divmod", "floordiv_operator", "rfloordiv_operator"):
        out = mg.tensor(np.zeros_like(a_arr), constant=False)
    expect_raise = which in ("first", "second", "both") or out is not None
    done.append("const_only_" + which)
    try:
        if name == "floordiv_operator":
            got = a // (b if which != "none_nonconst" or True else b_arr)
            want = a_arr // b_arr
        elif name == "rfloordiv_operator":
            got = a_arr // b if which in ("second", "both", "none_nonconst") else 3.0 // a
            want = a_arr // b_arr if which in ("second", "both", "none_nonconst") else 3.0 // a_arr
            if which in ("first",):
                expect_raise = True
        elif binary:
            kw = {} if out is None else {"out": out}
            got = getattr(np, name)(a, b, **kw)
            want = getattr(np, name)(a_arr, b_arr)
        else:
            kw = {} if out is None else {"out": out}
            got = getattr(np, name)(a, **kw)
            want = getattr(np, name)(a_arr)
    except ValueError as e:
        if expect_raise:
            return None
        return Mismatch("constonly_raised_on_constants", f"np.{name} on constant tensors raised {fmt_exc(e)}")
    except Exception as e:  # noqa: BLE001
        return Mismatch("constonly_wrong_exception", f"np.{name} ({which} non-constant): {fmt_exc(e)}")
    if expect_raise:
        return Mismatch("constonly_accepted_nonconstant", f"np.{name} accepted a non-constant tensor ({which}) instead of raising ValueError")
    gots = got if isinstance(got, tuple) else (got,)
    wants = want if isinstance(want, tuple) else (want,)
    for g_, w_ in zip(gots, wants):
        if isinstance(g_, mg.Tensor):
            return Mismatch("constonly_returned_tensor", f"np.{name} returned a Tensor")
        if not np.array_equal(np.asarray(g_), np.asarray(w_), equal_nan=True):
            return Mismatch("constonly_value", f"np.{name} differs from numpy on the data")
    return None


N = {"quick": 1400, "thorough": 16000}


def shard_plan(tier):
    return [f"s{i}" for i in range(16)]


def run_shard(shard, seed, tier):
    rec = Recorder()
    viol = drive(prop=PROPERTY, name="spellings", strategy=cases(), check_case=lambda c: check_case(c, rec), rec=rec,
                 seed=seed, max_examples=N[tier])
    out = rec.result()
    out["violations"] = viol
    return out


def replay(check, case):
    return check_case(case)
