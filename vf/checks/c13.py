"""C13 — a failed operation leaves no trace."""

from __future__ import annotations

import numpy as np
from hypothesis import strategies as st

from vf import history, ir
from vf.common import Mismatch, Recorder, drive, fmt_exc, reset_mygrad
from vf.gen import history_program
from vf.checks.c04 import skeleton
from vf.checks import c05

PROPERTY = "C13"
RULE = (
    "C04/C05 histories with failing statements inserted at drawn positions; 14 failure kinds (non-view op with "
    "incompatible shapes, matmul shape, bad axis, out-of-range index, impossible reshape, bad permutation, "
    "non-broadcastable set-item/augmented value on a base or a view, out-of-range set-item, out= of wrong "
    "shape via mg and np routes, read-only (broadcast) target, bad dtype=, constant=False for an integer "
    "result, casting error into an integer out=). Each failing statement is validated on NumPy first (it must "
    "raise there). Oracle: (a) MyGrad raises; (b) snapshot equality across the failure for every live tensor "
    "(object, data bytes, shape, dtype, constant, base, creator, number of recorded consumers, writeable flag), "
    "the pairwise sharing matrix and every caller-owned array; (c) the C04 invariant after every later step and "
    "final gradients equal both the NumPy reference (which never saw the failing statements) and, bit for bit, "
    "a MyGrad run of the same program with the failing statements deleted. Non-trivial = a failing statement "
    "executed while a view family of size >=2 exists; distinct by statement skeleton."
)
ASSUMPTIONS = ["gradients are not part of the snapshot (MyGrad documents nulling the target's gradient up front)"]


@st.composite
def cases(draw, tier="quick"):
    b = draw(history_program(max_steps=12 if tier == "quick" else 20, max_elems=12, with_fail=True))
    r = b.ref
    live = [h for h in r.env if r.is_tensor[h] and not r.isint[h] and r.env[h].size > 0]
    nonconst = [h for h in live if not r.const[h]]
    pool = nonconst or live
    k = draw(st.integers(1, min(2, len(pool))))
    chosen = []
    for _ in range(k):
        h = b.pick(pool)
        if h not in chosen:
            chosen.append(h)
    terms = []
    for h in chosen:
        w = b.leaf("array", list(b.shape(h)), lo=-20, hi=20)
        m = b.op("multiply", [h, w])
        s = b.op("sum", [m]) if m is not None else None
        if s is not None:
            terms.append(s)
    L = terms[0] if len(terms) == 1 else (b.op("add_sequence", terms) if terms else None)
    if L is None:
        L = terms[0] if terms else pool[-1]
    return {"prog": b.prog, "L": L}


def classify(prog, ref):
    stmts = prog["stmts"]
    created = {s["h"]: i for i, s in enumerate(stmts) if "h" in s}
    labels = set()
    nontrivial = False
    for i, s in enumerate(stmts):
        if s["k"] != "fail":
            continue
        labels.add("fail_" + s["why"])
        fams = {}
        for h, o in ref.owner.items():
            if ref.is_tensor.get(h) and created.get(h, 10**9) < i:
                fams[o] = fams.get(o, 0) + 1
        if any(v >= 2 for v in fams.values()):
            nontrivial = True
            labels.add("fail_with_view_family")
        inner = s["stmt"]
        if inner["k"] == "inplace":
            t = inner["target"]
            labels.add("fail_inplace_on_view" if ref.owner.get(t) != t else "fail_inplace_on_base")
    return nontrivial, sorted(labels)


def strip_fails(prog):
    return {"stmts": [s for s in prog["stmts"] if s["k"] != "fail"]}


def check_case(case, rec=None):
    prog, L = case["prog"], case["L"]
    reset_mygrad()
    run, ref, mm = history.run_lockstep(prog, check_each=True)
    if rec is not None:
        full = ir.RefRun(prog).run()
        nontrivial, labels = classify(prog, full)
        rec.note([skeleton_f(prog), L], nontrivial, labels, sample={"L": L, "stmts": prog["stmts"]})
    if mm is not None:
        return mm
    exp = ir.expected_after_backward(prog, L)
    try:
        run.env[L].backward()
    except Exception as e:  # noqa: BLE001
        return Mismatch("backward_raised", fmt_exc(e))
    mm = ir.compare_grads(exp, run)
    if mm is not None:
        return mm
    # differential: same program without the failing statements, bit for bit
    reset_mygrad()
    run2 = ir.MgRun(strip_fails(prog)).run()
    if run2.error is not None:
        return Mismatch("raised_without_fails", fmt_exc(run2.error))
    run2.env[L].backward()
    mg = run.mg
    for h, t in run.env.items():
        if not isinstance(t, mg.Tensor) or h not in run2.env:
            continue
        t2 = run2.env[h]
        if t.data.tobytes() != t2.data.tobytes() or t.shape != t2.shape:
            return Mismatch("diff_value", f"h{h}: final value differs from the run without failing statements")
        g1, g2 = t.grad, t2.grad
        if (g1 is None) != (g2 is None) or (g1 is not None and g1.tobytes() != g2.tobytes()):
            return Mismatch("diff_grad", f"h{h}: final gradient differs from the run without failing statements")
    return None


def skeleton_f(prog):
    out = []
    for s in prog["stmts"]:
        if s["k"] == "fail":
            i = s["stmt"]
            out.append(["fail", s["why"], i.get("op"), i.get("kind"), i.get("target"), i.get("args")])
        else:
            out.extend(skeleton({"stmts": [s]}))
    return out


N = {"quick": 800, "thorough": 8000}


def shard_plan(tier):
    return [f"s{i}" for i in range(16)]


def run_shard(shard, seed, tier):
    rec = Recorder()
    viol = drive(prop=PROPERTY, name="fail_history", strategy=cases(tier), check_case=lambda c: check_case(c, rec), rec=rec,
                 seed=seed, max_examples=N[tier])
    out = rec.result()
    out["violations"] = viol
    return out


def replay(check, case):
    return check_case(case)
