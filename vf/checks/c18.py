"""C18 — save/load round-trips a tensor's data, dtype and gradient (DESIGN.md §3 C18)."""

from __future__ import annotations

import io
import os
import pathlib
import tempfile

import numpy as np
from hypothesis import strategies as st

from vf.common import Mismatch, Recorder, drive, fmt_exc, reset_mygrad

PROPERTY = "C18"
RULE = (
    "Hypothesis draws (dtype over all 12 real dtypes, shape ndim 0-3 with sides 0-4, values, "
    "constant flag, how the tensor came to be: leaf / non-contiguous leaf / view of a base / op "
    "result, how its gradient came to be: none / real backward / seeded backward / gradient held "
    "as a view of the base's gradient, and save target: path with/without .npz, pathlib.Path, "
    "BytesIO, real file object). Oracle: round-trip equality of data/dtype/shape/grad and "
    "before/after snapshot of the saved tensor. Non-trivial = gradient present, or dtype != "
    "float64, or 0-d / empty / view / non-contiguous; distinct by (dtype, shape, origin, grad mode, "
    "target, constant)."
)
ASSUMPTIONS = [
    "numpy.savez/numpy.load are trusted as the storage layer",
    "load() is given the file name NumPy actually wrote (NumPy appends .npz to suffix-less paths)",
]

INT_DTYPES = ["bool", "int8", "int16", "int32", "int64", "uint8", "uint16", "uint32", "uint64"]
FLOAT_DTYPES = ["float16", "float32", "float64"]


@st.composite
def cases(draw):
    dtype = draw(st.sampled_from(INT_DTYPES + FLOAT_DTYPES + FLOAT_DTYPES))
    ndim = draw(st.integers(0, 3))
    shape = [draw(st.integers(0, 4)) for _ in range(ndim)]
    is_float = dtype in FLOAT_DTYPES
    origin = draw(st.sampled_from(["leaf", "leaf_noncontig", "view", "op_result"]))
    if is_float:
        constant = draw(st.sampled_from([None, True, False]))
        gradmode = draw(st.sampled_from(["none", "backward", "seed", "base_backward", "view_then_base"]))
    else:
        constant = draw(st.sampled_from([None, True]))
        gradmode = "none"
    n = int(np.prod(shape)) if shape else 1
    vals = draw(st.lists(st.integers(-100, 100), min_size=2 * n + 2, max_size=2 * n + 2))
    target = draw(st.sampled_from(["path_npz", "path_nosuffix", "pathlib", "bytesio", "fileobj"]))
    return {
        "dtype": dtype,
        "shape": shape,
        "origin": origin,
        "constant": constant,
        "gradmode": gradmode,
        "vals": vals,
        "target": target,
    }


def _vals(case, n, offset=0):
    v = np.array(case["vals"][offset : offset + n], dtype=np.float64)
    dt = np.dtype(case["dtype"])
    if dt.kind == "f":
        return (v / 8.0).astype(dt)
    if dt.kind == "b":
        return (v.astype(np.int64) % 2).astype(bool)
    if dt.kind == "u":
        return np.abs(v).astype(dt)
    return v.astype(dt)


def build(case):
    """Returns (t, keepalive) where t is the tensor to save."""
    import mygrad as mg

    shape = tuple(case["shape"])
    n = int(np.prod(shape)) if shape else 1
    origin = case["origin"]
    const = case["constant"]
    keep = []
    if origin == "leaf":
        t = mg.tensor(_vals(case, n).reshape(shape), constant=const)
    elif origin == "leaf_noncontig":
        # tensor wrapping a non-contiguous array without copying
        big = _vals(case, 2 * n).reshape(shape + (2,)) if n else np.zeros(shape + (2,), case["dtype"])
        arr = big[..., 0]
        t = mg.tensor(arr, constant=const, copy=False)
        keep.append(big)
    elif origin == "view":
        base = mg.tensor(_vals(case, 2 * n).reshape(shape + (2,)) if n else np.zeros(shape + (2,), case["dtype"]),
                         constant=const)
        t = base[..., 1]
        keep.append(base)
    else:  # op_result
        x = mg.tensor(_vals(case, n).reshape(shape), constant=const)
        t = +x if np.dtype(case["dtype"]).kind != "b" else mg.tensor(_vals(case, n).reshape(shape), constant=const)
        keep.append(x)

    gm = case["gradmode"]
    if gm == "backward":
        w = (np.arange(n, dtype=np.float64).reshape(shape) + 1.5)
        (t * w).sum().backward()
    elif gm == "seed":
        g = np.asarray(_vals(case, n, offset=n).reshape(shape), dtype=np.float64) + 0.25
        t.backward(g)
    elif gm == "base_backward" and origin == "view":
        base = keep[-1]
        w = np.arange(base.size, dtype=np.float64).reshape(base.shape) - 2.5
        (base * w).sum().backward()
    elif gm == "base_backward":
        (t * 3.0).backward()
    elif gm == "view_then_base":
        # two epochs: a backward pass through the tensor, then (for a view) one through its base only, which gives
        # the base a new gradient that the - now disconnected - view is not part of
        w = (np.arange(n, dtype=np.float64).reshape(shape) + 1.5)
        (t * w).sum().backward()
        if origin == "view":
            base = keep[-1]
            w2 = np.arange(base.size, dtype=np.float64).reshape(base.shape) - 2.5
            (base * w2).sum().backward()
        else:
            (t * 3.0).sum().backward()
    return t, keep


def _snap(t):
    g = t.grad
    return {
        "data": t.data.tobytes(),
        "dtype": t.dtype,
        "shape": t.shape,
        "grad": None if g is None else (g.tobytes(), g.dtype, g.shape),
        "grad_obj": id(g),
        "creator": id(t.creator),
        "base": id(t.base),
        "nops": len(t._ops),
        "constant": t.constant,
        "writeable": t.data.flags.writeable,
    }


def check_case(case):
    import mygrad as mg

    reset_mygrad()
    t, keep = build(case)
    before = _snap(t)
    g_before = t.grad
    with tempfile.TemporaryDirectory(prefix="vf_c18_") as d:
        tk = case["target"]
        try:
            if tk == "path_npz":
                p = os.path.join(d, "t.npz")
                mg.save(p, t)
                loaded = mg.load(p)
            elif tk == "path_nosuffix":
                p = os.path.join(d, "t")
                mg.save(p, t)
                loaded = mg.load(p + ".npz")
            elif tk == "pathlib":
                p = pathlib.Path(d) / "t.npz"
                mg.save(p, t)
                loaded = mg.load(p)
            elif tk == "bytesio":
                buf = io.BytesIO()
                mg.save(buf, t)
                buf.seek(0)
                loaded = mg.load(buf)
            else:
                p = os.path.join(d, "t.bin")
                with open(p, "wb") as f:
                    mg.save(f, t)
                with open(p, "rb") as f:
                    loaded = mg.load(f)
        except Exception as e:  # save/load must accept every tensor
            return Mismatch("raised", fmt_exc(e))
    after = _snap(t)
    for k in before:
        if before[k] != after[k] and k != "grad_obj":
            return Mismatch("save_altered_tensor", f"{k}: {before[k]!r} -> {after[k]!r}")
    if t.base is None and before["grad_obj"] != after["grad_obj"]:
        return Mismatch("save_altered_tensor", "grad object replaced")

    if not isinstance(loaded, mg.Tensor):
        return Mismatch("type", f"load returned {type(loaded)}")
    if loaded.dtype != t.dtype:
        return Mismatch("dtype", f"{loaded.dtype} != {t.dtype}")
    if loaded.shape != t.shape:
        return Mismatch("shape", f"{loaded.shape} != {t.shape}")
    if not np.array_equal(loaded.data, t.data, equal_nan=True):
        return Mismatch("data", "values differ")
    lg = loaded.grad
    if (g_before is None) != (lg is None):
        return Mismatch("grad_presence", f"orig grad None={g_before is None}, loaded None={lg is None}")
    if lg is not None:
        if type(lg) is not np.ndarray:
            return Mismatch("grad_type", repr(type(lg)))
        if lg.dtype != g_before.dtype or lg.shape != g_before.shape:
            return Mismatch("grad_meta", f"{lg.dtype}{lg.shape} != {g_before.dtype}{g_before.shape}")
        if not np.array_equal(lg, g_before, equal_nan=True):
            return Mismatch("grad_values", "gradient values differ")
    return None


def _note(rec: Recorder, case):
    shape = case["shape"]
    n = int(np.prod(shape)) if shape else 1
    has_grad = case["gradmode"] != "none" and case["constant"] is not True
    labels = [f"dtype={case['dtype']}", f"target={case['target']}", f"origin={case['origin']}"]
    if has_grad:
        labels.append("grad_present")
    if len(shape) == 0:
        labels.append("0-d")
    if n == 0:
        labels.append("empty")
    nontrivial = (
        has_grad or case["dtype"] != "float64" or len(shape) == 0 or n == 0
        or case["origin"] in ("view", "leaf_noncontig")
    )
    key = [case["dtype"], shape, case["origin"], case["gradmode"], case["target"], case["constant"]]
    rec.note(key, nontrivial, labels, sample=case)


N = {"quick": 1000, "thorough": 16000}


def shard_plan(tier):
    return [f"s{i}" for i in range(16)]


def run_shard(shard, seed, tier):
    rec = Recorder()

    def cc(case):
        _note(rec, case)
        return check_case(case)

    viol = drive(prop=PROPERTY, name="roundtrip", strategy=cases(), check_case=cc, rec=rec,
                 seed=seed, max_examples=N[tier])
    out = rec.result()
    out["violations"] = viol
    return out


def replay(check, case):
    return check_case(case)
