"""Lock-step execution of a history program on MyGrad and on the NumPy reference, with the
model-based oracle of C04 (values, sharing matrix, base, identity, constant flag) evaluated after
every statement, and fail-statement handling for C13."""

from __future__ import annotations

import numpy as np

from vf import ir
from vf.common import Mismatch, fmt_exc


def tensor_handles(run):
    mg = run.mg
    return [h for h, t in run.env.items() if isinstance(t, mg.Tensor)]


def check_state(run: ir.MgRun, ref: ir.RefRun, objs, consts, after, touched=None):
    """C04 oracle for every live tensor handle.  `touched`: handles whose memory the last statement created or
    wrote (the pairwise sharing matrix is re-examined for every pair involving one of them; pairs among untouched
    handles were examined after an earlier statement and neither side's array has changed since - their values
    and bases are still compared every time)."""
    mg = run.mg
    hs = tensor_handles(run)
    for h in hs:
        t = run.env[h]
        a = ref.env[h]
        if t is not objs[h]:
            return Mismatch("identity", f"after stmt {after}: handle h{h} is a different Python object")
        if t.constant is not consts[h]:
            return Mismatch("constant_flag", f"after stmt {after}: h{h}.constant changed to {t.constant}")
        if t.shape != a.shape:
            return Mismatch("shape", f"after stmt {after}: h{h} shape {t.shape} != numpy {a.shape}")
        if t.dtype != a.dtype:
            return Mismatch("dtype", f"after stmt {after}: h{h} dtype {t.dtype} != numpy {a.dtype}")
        if not np.array_equal(t.data, a, equal_nan=True):
            if not np.allclose(t.data, a, rtol=1e-13, atol=1e-13, equal_nan=True):
                return Mismatch("value", f"after stmt {after}: h{h} holds {t.data.tolist()!r} numpy {a.tolist()!r}"[:400])
        o = ref.owner[h]
        if a.size > 0:
            if o == h:
                if t.base is not None:
                    # A function composed of several ops (multi_matmul with a 1-D last operand) may hand back a view
                    # of an intermediate tensor the caller never sees: that hidden tensor then *is* the owner of the
                    # memory, and naming it as .base is what the property asks for.  Anything else is a violation.
                    bb = t.base
                    hidden_owner = (not any(bb is v for v in run.env.values()) and bb.base is None
                                    and np.shares_memory(t.data, bb.data))
                    if not hidden_owner:
                        return Mismatch("base", f"after stmt {after}: h{h} owns its memory in NumPy but .base is not None")
            elif t is run.env.get(o):
                # documented pass-through (e.g. mg.atleast_1d(x) is x): the handle aliases the owner
                if t.base is not None and not (not any(t.base is v for v in run.env.values()) and t.base.base is None
                                               and np.shares_memory(t.data, t.base.data)):  # (hidden owner, see above)
                    return Mismatch("base", f"after stmt {after}: h{h} aliases owner h{o} but .base is not None")
            else:
                ot = run.env.get(o)
                want_base = ot
                if ot is not None and ot.base is not None and not any(ot.base is v for v in run.env.values()) \
                        and ot.base.base is None and np.shares_memory(ot.data, ot.base.data):
                    want_base = ot.base  # (the visible "owner" is itself a view of a hidden intermediate, see above)
                if t.base is not want_base:
                    return Mismatch("base", f"after stmt {after}: h{h}.base is not the owner tensor h{o} "
                                            f"(base is {'None' if t.base is None else 'another tensor'})", h=h)
    for i, h1 in enumerate(hs):
        for h2 in hs[i + 1:]:
            if touched is not None and h1 not in touched and h2 not in touched:
                continue
            a1, a2 = ref.env[h1], ref.env[h2]
            if a1.size == 0 or a2.size == 0:
                continue
            want = np.shares_memory(a1, a2)
            got = np.shares_memory(run.env[h1].data, run.env[h2].data)
            if want != got:
                return Mismatch("sharing", f"after stmt {after}: shares_memory(h{h1},h{h2}) mygrad={got} numpy={want}")
    return None


def snapshot(run):
    """State that a failed statement must leave untouched (C13)."""
    mg = run.mg
    snap = {}
    hs = tensor_handles(run)
    for h in hs:
        t = run.env[h]
        snap[h] = (
            id(t), t.data.tobytes(), t.shape, str(t.dtype), t.constant, id(t.base), id(t.creator), len(t._ops),
            t.data.flags.writeable,
        )
    share = {}
    for i, h1 in enumerate(hs):
        for h2 in hs[i + 1:]:
            share[(h1, h2)] = bool(np.shares_memory(run.env[h1].data, run.env[h2].data))
    arrs = {h: (a.tobytes(), a.flags.writeable) for h, a in run.env.items() if isinstance(a, np.ndarray)}
    return snap, share, arrs


SNAP_FIELDS = ["object", "data", "shape", "dtype", "constant", "base", "creator", "n_consumers", "writeable"]


def diff_snapshot(s1, s2):
    a, sh1, ar1 = s1
    b, sh2, ar2 = s2
    for h in a:
        if h not in b:
            return f"h{h} disappeared"
        for f, x, y in zip(SNAP_FIELDS, a[h], b[h]):
            if x != y:
                return f"h{h}.{f} changed"
    if sh1 != sh2:
        return "memory-sharing relationships changed"
    for h in ar1:
        if ar1[h] != ar2.get(h):
            return f"caller-owned array h{h} changed (contents or writeable flag)"
    return None


def run_lockstep(prog, check_each=True, stop_before=None, flag_views="grad"):
    """Returns (mgrun, refrun, mismatch)."""
    run = ir.MgRun(prog)
    ref = ir.RefRun(prog, flag_views=flag_views)
    mg = run.mg
    objs, consts = {}, {}
    for idx, st in enumerate(prog["stmts"]):
        if stop_before is not None and idx >= stop_before:
            break
        k = st["k"]
        if k == "fail":
            before = snapshot(run)
            inner = st["stmt"]
            try:
                run.exec(idx, inner)
            except Exception:
                pass
            else:
                return run, ref, Mismatch("fail_no_raise", f"stmt {idx} ({st.get('why')}) was accepted by MyGrad but NumPy rejects it")
            # a failed op may not even leave a result handle behind
            if inner.get("h") in run.env:
                run.env.pop(inner["h"])
            d = diff_snapshot(before, snapshot(run))
            if d is not None:
                return run, ref, Mismatch("fail_left_trace", f"after failing stmt {idx} ({st.get('why')}): {d}")
            continue
        try:
            run.exec(idx, st)
        except Exception as e:  # noqa: BLE001
            return run, ref, Mismatch("raised", f"stmt {idx} {st.get('op', st.get('kind', st['k']))}: {fmt_exc(e)}")
        ref.exec(idx, st)
        if run.identity_violation:
            return run, ref, Mismatch("identity", f"stmt {idx}: {run.identity_violation}")
        for h, t in run.env.items():
            if h not in objs and isinstance(t, mg.Tensor):
                objs[h] = t
                consts[h] = t.constant
                # constant flag of a fresh tensor must follow the model
                if t.constant is not bool(ref.const[h]):
                    return run, ref, Mismatch("constant_flag", f"stmt {idx}: new tensor h{h}.constant={t.constant}, model {ref.const[h]}")
        if check_each and k in ("op", "inplace", "leaf"):
            if k == "inplace":
                o = ref.owner[st["target"]]
                touched = {h for h, oo in ref.owner.items() if oo == o}
                # MyGrad re-homes every member of the family: identity of their arrays changed
                touched |= {h for h, t in run.env.items() if isinstance(t, mg.Tensor) and t.base is run.env.get(o)}
            else:
                touched = {st["h"]}
            mm = check_state(run, ref, objs, consts, idx, touched=touched)
            if mm is not None:
                return run, ref, mm
    return run, ref, None
