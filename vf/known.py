"""Narrow executable predicates for the findings listed (status "open") in
/verif/known_findings.json.  A mismatch that matches an open finding is counted and reported
as KNOWN-FINDING; anything else is a violation.  `fixed` entries have no predicate here: they
suppress nothing."""

from __future__ import annotations

import json
import os

_VERIF = os.path.dirname(os.path.dirname(os.path.abspath(__file__)))

PREDICATES = {}


def predicate(kid):
    def deco(fn):
        PREDICATES[kid] = fn
        return fn

    return deco


_open_cache = None


def _open_ids():
    global _open_cache
    if _open_cache is None:
        p = os.path.join(_VERIF, "known_findings.json")
        _open_cache = {}
        if os.path.exists(p):
            with open(p) as f:
                for k in json.load(f).get("findings", []):
                    if k.get("status") == "open":
                        _open_cache[k["id"]] = k["property"]
    return _open_cache


def match(prop, case, mm):
    """Returns the id of the open finding that explains mismatch `mm` on `case`, else None."""
    for kid, p in _open_ids().items():
        if p != prop:
            continue
        fn = PREDICATES.get(kid)
        if fn is not None and fn(case, mm):
            return kid
    return None


@predicate("C08-leak-partial-clear-then-inplace")
def _c08_leak(case, mm):
    if mm.kind != "flag_not_restored":
        return False
    seen_clear = False
    for s in case.get("stmts", []):
        if s["k"] in ("backward", "clear"):
            seen_clear = True
        elif seen_clear and (s["k"] == "setitem" or (s["k"] == "op" and s.get("name") == "add_out")):
            return True
    return False


@predicate("C08-cleared-then-inplace-rehomed-input")
def _c08_rehomed(case, mm):
    """Same root cause as C09-cleared-tensor-reused-or-mutated: backward()/clear_graph() empties a tensor's consumer
    set, so a later in-place update cannot re-route the still-live consumers to a placeholder; they now name the
    public tensor, whose *new* data array is unlocked once the in-place graph is released.  Signature: the history has
    a backward/clear before an in-place update, and every array the live ops were actually called on or produced is
    still read-only (the check passes when those recorded arrays are used instead of the tensors' current data)."""
    if mm.kind != "unlocked_in_live_graph":
        return False
    seen_clear = hit = False
    for s in case.get("stmts", []):
        if s["k"] in ("backward", "clear"):
            seen_clear = True
        elif seen_clear and (s["k"] == "setitem" or (s["k"] == "op" and s.get("name") == "add_out")):
            hit = True
    if not hit:
        return False
    from vf.checks import c08

    c08.RECORDED_ONLY = True
    try:
        return c08.check_case(case) is None
    finally:
        c08.RECORDED_ONLY = False


@predicate("C07-orphan-view-after-base-shape-assignment")
def _c07_orphan_shape(case, mm):
    """Same root cause as C09-cleared-tensor-reused-or-mutated (backward emptied the leaf's consumer set and its list of
    views, so a later in-place update - here: assigning leaf.shape - cannot re-route the creator of a view the caller
    kept; that creator now names the re-shaped leaf).  Signature: a wrongly *shaped* view gradient, in a follow-up
    sequence where a shape assignment precedes a second backward."""
    if mm.kind != "view_grad_shape" or case.get("mode") != "release":
        return False
    acts = case.get("actions", [])
    return any(a == "shape_assign" and "backward2" in acts[i + 1:] for i, a in enumerate(acts))


@predicate("C04-atleast-kd-constant-alias")
def _c04_atleast(case, mm):
    if mm.kind != "base" or "h" not in mm.extra:
        return False
    for s in case.get("prog", {}).get("stmts", []):
        if s.get("h") == mm.extra["h"]:
            return s["k"] == "op" and s["op"].startswith("atleast_") and s.get("constant") is not None
    return False


def _c09_phaseB(case):
    stmts = case["prog"]["stmts"]
    return stmts, case["endA"]


@predicate("C09-cleared-tensor-reused-or-mutated")
def _c09_stale(case, mm):
    """Signature: after a clearing step in phase B, either (i) a new operation re-uses a tensor (refilling a consumer
    set although a creator chain / re-routing is gone), or (ii) an in-place update writes a value that has a history
    of its own (an op result or a leaf that was itself updated in place).  A clearing step followed only by in-place
    updates with pristine leaf / scalar / array values is NOT covered: there MyGrad raises InvalidBackprop, and any
    deviation is reported."""
    if mm.kind not in ("grad_from_post_mutation_values", "grad_not_of_recorded_computation",
                       "final_backward_wrong_exception", "grad_missing", "grad_written_to_unrelated", "raised"):
        return False
    if mm.kind == "raised" and "RecursionError" not in mm.detail:
        return False
    from vf.ir import RefRun

    stmts, endA = _c09_phaseB(case)
    leaves = {s["h"] for s in stmts if s["k"] == "leaf"}
    ref = RefRun(case["prog"]).run()
    mutated_owners = set()
    seen_clear = False
    cleared = []  # handles a clearing step was called on (it empties their consumer sets and those upstream of them)
    for i, s in enumerate(stmts):
        if i >= endA and s["k"] in ("backward", "clear"):
            seen_clear = True
            cleared.append(s["h"])
        if seen_clear and i >= endA:
            if s["k"] == "op":
                return True  # any re-use after the clearing step (refills a consumer set)
            elif s["k"] == "inplace":
                if any(a not in leaves or ref.owner.get(a) in mutated_owners for a in s.get("args", [])):
                    return True  # the written value has a history of its own
                t_ = s["target"]
                if ref.const.get(ref.owner.get(t_)) and any(
                        ch in ref.env and (ref.owner.get(ch) == ref.owner.get(t_) or ref.tok(t_) in ref.D.get(ref.tok(ch), frozenset()))
                        for ch in cleared):
                    # ... or the target is a *constant* tensor whose consumer set a clearing step emptied: its consumers
                    # cannot be re-routed to a placeholder, and Operation.backward never applies the InvalidBackprop test
                    # to constant inputs, so they silently read the new contents
                    return True
                for a in s.get("args", []):
                    # ... or is a tensor whose own consumer set a clearing step emptied: the in-place statement is
                    # then a re-use of it in the sense of (i) (it refills the set)
                    if ref.is_tensor.get(a) and any(a == ch or (ch in ref.env and ref.tok(a) in ref.D.get(ref.tok(ch), frozenset()))
                                                    for ch in cleared):
                        return True
        if s["k"] == "inplace":
            mutated_owners.add(ref.owner.get(s["target"]))
    return False


@predicate("C09-terminal-cleared-by-downstream-backward")
def _c09_cleared_terminal(case, mm):
    if mm.kind not in ("grad_not_of_recorded_computation", "grad_missing"):
        return False
    from vf.ir import RefRun

    stmts, endA = _c09_phaseB(case)
    L = case["L"]
    for i, s in enumerate(stmts[endA:], start=endA):
        if s["k"] in ("backward", "clear") and s["h"] != L:
            ref = RefRun(case["prog"], stop_at=i).run()
            if s["h"] in ref.env and L in ref.env and ref.tok(L) in ref.D.get(ref.tok(s["h"]), frozenset()):
                return True
            if s["h"] in ref.env and s["h"] in _downstream_of(stmts[:i], L, ref):
                return True  # also through constant tensors (an in-place target keeps its constant flag, yet its
                #              creator then names the written value, and clearing walks every creator)
    return False


def _downstream_of(stmts, L, ref):
    """handles whose value was computed from L by the given statements - through op arguments and through values
    written in place into any member of a memory family - regardless of constant flags"""
    owner = ref.owner
    fam = {owner.get(L, L)}
    out = {L}
    for s in stmts:
        if s["k"] == "op" and any(a in out or owner.get(a) in fam for a in s["args"]):
            out.add(s["h"])
            if owner.get(s["h"]) == s["h"]:
                fam.add(s["h"])
        elif s["k"] == "inplace" and any(a in out or owner.get(a) in fam for a in s.get("args", [])):
            fam.add(owner.get(s["target"], s["target"]))
    return {h for h in owner if h in out or owner[h] in fam}


@predicate("C05-write-through-constant-view")
def _c05_const_view_write(case, mm):
    """A set-item whose target is a constant-flagged view of non-constant memory, and MyGrad's gradients are exactly
    those of the model in which such a write first detaches the old contents of the view's whole region (the gradient
    of everything else - in particular of the written value - must still be right)."""
    if mm.kind not in ("grad_value", "grad_missing"):
        return False
    from vf.ir import RefRun
    from vf.checks import c05

    stmts = case["prog"]["stmts"]
    ref = RefRun(case["prog"], flag_views="memory").run()
    hit = False
    for s in stmts:
        if s["k"] == "inplace" and s["kind"] == "setitem":
            t = s["target"]
            if ref.const[t] and not ref.const[ref.owner[t]]:
                hit = True
    if not hit:
        return False
    return c05.check_case(case, model="memory-sever") is None


def _gru_output_shape(case, mm):
    if mm.kind not in ("grad_shape", "grad_meta"):
        return False
    if case.get("op") != "gru" or mm.extra.get("h") != case.get("L"):
        return False
    for s in case["prog"]["stmts"]:
        if s.get("h") == case["L"]:
            return s["k"] == "op" and s["op"] == "gru"
    return False


PREDICATES["C02-gru-output-grad-shape"] = _gru_output_shape
PREDICATES["C14-gru-output-grad-shape"] = _gru_output_shape


@predicate("C03-int-pow-float-two")
def _c03_int_pow(case, mm):
    """`**` with an integer/bool tensor base and a scalar exponent equal to 1 or 2: the Positive/Square short-cut
    keeps the base's dtype (or fails for bool, which has no `positive` loop) where NumPy promotes."""
    if case.get("name") != "op_pow" or mm.kind not in ("differs_from_numpy", "mygrad_raised"):
        return False
    if mm.kind == "differs_from_numpy" and "dtype" not in mm.detail:
        return False
    if mm.kind == "mygrad_raised" and "positive" not in mm.detail:
        return False
    ops = case["ops"]
    base, ex = ops[0], ops[1]
    if base.get("kind") != "tensor":
        return False
    if ex["kind"] == "pyfloat":
        v = float(ex["v"]) + (0.5 if ex.get("half") else 0.0)
    elif ex["kind"] in ("pyint", "pybool", "npscalar"):
        v = float(ex["v"])
    elif ex["kind"] == "array" and ex.get("shape") == []:
        import numpy as np

        dt = np.dtype(ex["dtype"])
        raw = float(ex["vals"][0])
        v = raw / 2.0 if (dt.kind == "f" and ex.get("half")) else (abs(raw) if dt.kind == "u" else raw)
        if dt.kind == "b":
            v = float(int(raw) % 2)
    else:
        return False
    return v in (1.0, 2.0)


def np_kind(dt):
    import numpy as np

    return np.dtype(dt).kind if dt else "?"


@predicate("C11-pow-shortcut-dtype")
def _c11_pow(case, mm):
    return case.get("fam") == "pow_special" and mm.kind == "spelling_differs" and "dtype" in mm.detail
