"""REF: a NumPy reference for MyGrad's differentiable vocabulary that is *dtype polymorphic*:
run on float64 it yields expected forward values; run on complex128 with one element perturbed
by i*h (h = 1e-30) it yields exact derivatives via the complex-step identity
    dL/dx_k = Im L(x + i h e_k) / h.
Non-analytic NumPy kernels are replaced by complex-safe definitions that agree on the real axis.
REF never calls MyGrad.
"""

from __future__ import annotations

import numpy as np

H = 1e-30


def _c(z):
    return np.asarray(z)


def iscomplex_mode(*zs):
    return any(np.iscomplexobj(z) for z in zs)


# ----------------------------------------------------------------------------- kink bookkeeping
class KinkLog:
    """REF kernels report, during a *real* evaluation, whether the point lies on (or within
    `margin` of) a non-differentiable locus."""

    def __init__(self):
        self.kinks = []
        self.margin = 1e-7

    def add(self, what):
        self.kinks.append(what)


_KINK = None


def set_kinklog(k):
    global _KINK
    _KINK = k


def _kink(what):
    if _KINK is not None:
        _KINK.add(what)


def _margin():
    return _KINK.margin if _KINK is not None else 1e-7


# ----------------------------------------------------------------------------- elementwise
def r_abs(z):
    z = _c(z)
    if np.any(np.abs(z.real) < _margin()):
        _kink("abs@0")
    if not np.iscomplexobj(z):
        return np.abs(z)
    return z * np.sign(z.real)


def r_sqrt(z):
    return np.sqrt(_c(z))


def r_cbrt(z):
    z = _c(z)
    s = np.sign(z.real)
    if np.any(np.abs(z.real) < _margin()):
        _kink("cbrt@0")
    if not np.iscomplexobj(z):
        return np.cbrt(z)
    return s * np.power(z * s, 1.0 / 3.0)


def r_maximum(a, b):
    a, b = _c(a), _c(b)
    if np.any(np.abs(a.real - b.real) < _margin()):
        _kink("maximum_tie")
    if not iscomplex_mode(a, b):
        return np.maximum(a, b)
    return np.where(a.real >= b.real, a, b)


def r_minimum(a, b):
    a, b = _c(a), _c(b)
    if np.any(np.abs(a.real - b.real) < _margin()):
        _kink("minimum_tie")
    if not iscomplex_mode(a, b):
        return np.minimum(a, b)
    return np.where(a.real <= b.real, a, b)


def r_clip(a, lo, hi):
    out = _c(a)
    if lo is not None:
        out = r_maximum(out, lo)
    if hi is not None:
        out = r_minimum(out, hi)
    return out


def r_logaddexp(a, b):
    a, b = _c(a), _c(b)
    if not iscomplex_mode(a, b):
        return np.logaddexp(a, b)
    m = np.maximum(a.real, b.real)
    return m + np.log(np.exp(a - m) + np.exp(b - m))


def r_logaddexp2(a, b):
    if not iscomplex_mode(_c(a), _c(b)):
        return np.logaddexp2(a, b)
    return r_logaddexp(_c(a) * np.log(2.0), _c(b) * np.log(2.0)) / np.log(2.0)


def r_arctan2(y, x):
    y, x = _c(y), _c(x)
    if not iscomplex_mode(y, x):
        return np.arctan2(y, x)
    off = np.where(x.real < 0, np.where(y.real >= 0, np.pi, -np.pi), 0.0)
    return np.arctan(y / x) + off


def r_power(a, b):
    a, b = _c(a), _c(b)
    return np.power(a, b)


def r_arccot(z):
    # mygrad docs: arccot(x) = arctan(1/x)  (x != 0)
    return np.arctan(1.0 / _c(z))


def r_sinc(z):
    z = _c(z)
    if not np.iscomplexobj(z):
        return np.sinc(z)
    y = np.pi * z
    return np.sin(y) / y


def r_relu(z):
    z = _c(z)
    if np.any(np.abs(z.real) < _margin()):
        _kink("relu@0")
    return z * (z.real > 0)


def r_leaky_relu(z, slope):
    z = _c(z)
    if np.any(np.abs(z.real) < _margin()):
        _kink("leaky_relu@0")
    return np.where(z.real > 0, z, slope * z)


def r_elu(z, alpha):
    z = _c(z)
    if np.any(np.abs(z.real) < _margin()):
        _kink("elu@0")
    return np.where(z.real > 0, z, alpha * (np.exp(z) - 1))


_SELU_ALPHA = 1.6732632423543772848170429916717
_SELU_SCALE = 1.0507009873554804934193349852946


def r_selu(z):
    z = _c(z)
    if np.any(np.abs(z.real) < _margin()):
        _kink("selu@0")
    return _SELU_SCALE * np.where(z.real > 0, z, _SELU_ALPHA * (np.exp(z) - 1))


def r_sigmoid(z):
    return 1.0 / (1.0 + np.exp(-_c(z)))


def r_hard_tanh(z, lo, hi):
    return r_clip(z, lo, hi)


def r_soft_sign(z):
    z = _c(z)
    return z / (1 + r_abs(z))


def r_glu(z, axis):
    z = _c(z)
    a, b = np.split(z, 2, axis=axis)
    return a * r_sigmoid(b)


def r_softmax(z, axis):
    z = _c(z)
    if z.ndim == 0:
        return np.exp(z - z)
    m = z.real.max(axis=axis, keepdims=True)
    e = np.exp(z - m)
    return e / e.sum(axis=axis, keepdims=True)


def r_logsoftmax(z, axis):
    z = _c(z)
    if z.ndim == 0:
        return z - z
    m = z.real.max(axis=axis, keepdims=True)
    s = z - m
    return s - np.log(np.exp(s).sum(axis=axis, keepdims=True))


# ----------------------------------------------------------------------------- reductions
def _norm_axes(axis, ndim):
    if axis is None:
        return tuple(range(ndim))
    if isinstance(axis, (int, np.integer)):
        axis = (int(axis),)
    return tuple(sorted(a % ndim for a in axis)) if ndim else ()


def r_sum(z, axis=None, keepdims=False):
    return np.asarray(np.sum(_c(z), axis=_t(axis), keepdims=keepdims))


def _t(axis):
    return tuple(axis) if isinstance(axis, list) else axis


def r_mean(z, axis=None, keepdims=False):
    return np.asarray(np.mean(_c(z), axis=_t(axis), keepdims=keepdims))


def r_prod(z, axis=None, keepdims=False):
    return np.asarray(np.prod(_c(z), axis=_t(axis), keepdims=keepdims))


def r_var(z, axis=None, ddof=0, keepdims=False):
    z = _c(z)
    if not np.iscomplexobj(z):
        return np.asarray(np.var(z, axis=_t(axis), ddof=ddof, keepdims=keepdims))
    axes = _norm_axes(_t(axis), z.ndim)
    n = int(np.prod([z.shape[a] for a in axes])) if axes else 1
    mu = np.mean(z, axis=axes, keepdims=True)
    d = (z - mu) ** 2
    out = np.sum(d, axis=axes, keepdims=keepdims) / (n - ddof)
    return np.asarray(out)


def r_std(z, axis=None, ddof=0, keepdims=False):
    v = r_var(z, axis=axis, ddof=ddof, keepdims=keepdims)
    if np.any(np.abs(v.real) < 1e-6):
        _kink("std@0")
    if not np.iscomplexobj(_c(z)):
        return np.asarray(np.std(z, axis=_t(axis), ddof=ddof, keepdims=keepdims))
    return np.sqrt(v)


def _r_maxmin(z, axis, keepdims, which):
    z = _c(z)
    axes = _norm_axes(_t(axis), z.ndim)
    if z.ndim == 0:
        return z.copy()
    ext = (z.real.max if which == "max" else z.real.min)(axis=axes, keepdims=True)
    gap = np.abs(z.real - ext)
    hit = gap == 0
    near = gap < _margin()
    if np.any(near.sum(axis=axes) > 1):
        _kink(f"{which}_tie")
        # pick the first hit along flattened reduced axes, as numpy's argmax would
        moved = np.moveaxis(hit, axes, tuple(range(-len(axes), 0)))
        flat = moved.reshape(moved.shape[: moved.ndim - len(axes)] + (-1,))
        first = np.zeros_like(flat)
        idx = flat.argmax(axis=-1)
        np.put_along_axis(first, idx[..., None], True, axis=-1)
        hit = np.moveaxis(first.reshape(moved.shape), tuple(range(-len(axes), 0)), axes)
    if not np.iscomplexobj(z):
        return np.asarray((np.max if which == "max" else np.min)(z, axis=axes, keepdims=keepdims))
    out = np.sum(z * hit, axis=axes, keepdims=keepdims)
    return np.asarray(out)


def r_max(z, axis=None, keepdims=False):
    return _r_maxmin(z, axis, keepdims, "max")


def r_min(z, axis=None, keepdims=False):
    return _r_maxmin(z, axis, keepdims, "min")


def r_cumsum(z, axis=None):
    return np.cumsum(_c(z), axis=axis)


def r_cumprod(z, axis=None):
    return np.cumprod(_c(z), axis=axis)


def r_norm(z, ord=None, axis=None, keepdims=False):
    z = _c(z)
    ax = _t(axis)
    if ax is None:
        ax = tuple(range(z.ndim))
    p = 2 if ord is None else ord
    a = r_abs(z)
    if p == np.inf:
        return r_max(a, axis=ax, keepdims=keepdims)
    if p == -np.inf:
        return r_min(a, axis=ax, keepdims=keepdims)
    if p == 0:
        return np.asarray(np.sum((a.real != 0), axis=ax, keepdims=keepdims).astype(z.dtype))
    if p == 1:
        return np.asarray(np.sum(a, axis=ax, keepdims=keepdims))
    if p == 2:
        return np.sqrt(np.sum(z * z, axis=ax, keepdims=keepdims))
    return np.power(np.sum(np.power(a, p), axis=ax, keepdims=keepdims), 1.0 / p)


# ----------------------------------------------------------------------------- registry
class OpDef:
    def __init__(self, name, arity, mg, ref, dom=None, view=False, nary=False):
        self.name = name
        self.arity = arity
        self.mg = mg  # mg(mgmod, args, p, kw) -> Tensor ; kw has constant= when given
        self.ref = ref  # ref(args, p) -> ndarray
        self.dom = dom or ["any"] * (arity if arity else 0)
        self.view = view
        self.nary = nary


OPS = {}


def _reg(name, arity, mg, ref, dom=None, view=False, nary=False):
    OPS[name] = OpDef(name, arity, mg, ref, dom, view, nary)


def _ax(p, key="axis"):
    a = p.get(key)
    return tuple(a) if isinstance(a, list) else a


# unary elementwise -------------------------------------------------------------
def _ufunc_kw(p, kw):
    """where= / dtype= options of the ufunc-style spellings"""
    k = dict(kw)
    if p.get("where") is not None:
        k["where"] = np.array(p["where"], dtype=bool).reshape(p["wshape"])
    if p.get("dtype") is not None:
        k["dtype"] = p["dtype"]
    return k


def _ufunc_post(out, args, p):
    """reference semantics of where= (unselected outputs are unspecified: modelled as 0, and excluded from value
    comparison) and dtype= (the computation and result are carried out in that dtype)"""
    out = np.asarray(out)
    if p.get("where") is not None:
        mask = np.array(p["where"], dtype=bool).reshape(p["wshape"])
        shape = np.broadcast_shapes(out.shape, mask.shape)
        out = np.where(np.broadcast_to(mask, shape), np.broadcast_to(out, shape), 0.0)
    if p.get("dtype") is not None and not np.iscomplexobj(out):
        out = out.astype(p["dtype"])
    return out


def _u(name, reff, dom="any", mgname=None):
    mgname = mgname or name
    _reg(
        name,
        1,
        lambda mg, a, p, kw, _n=mgname: getattr(mg, _n)(a[0], **_ufunc_kw(p, kw)),
        lambda a, p, _f=reff: _ufunc_post(_f(a[0]), a, p),
        [dom],
    )


_u("negative", lambda z: -_c(z))
_u("positive", lambda z: +_c(z))
_u("square", lambda z: _c(z) * _c(z))
_u("reciprocal", lambda z: 1.0 / _c(z), "nonzero")
_u("exp", np.exp, "small")
_u("exp2", lambda z: np.exp(_c(z) * np.log(2.0)), "small")
_u("expm1", np.expm1, "small")
_u("log", np.log, "pos")
_u("log2", lambda z: np.log(_c(z)) / np.log(2.0), "pos")
_u("log10", lambda z: np.log(_c(z)) / np.log(10.0), "pos")
_u("log1p", np.log1p, "pos")
_u("sin", np.sin, "small")
_u("cos", np.cos, "small")
_u("tan", np.tan, "unit")
_u("arcsin", np.arcsin, "unit")
_u("arccos", np.arccos, "unit")
_u("arctan", np.arctan)
_u("sinh", np.sinh, "small")
_u("cosh", np.cosh, "small")
_u("tanh", np.tanh)
_u("arcsinh", np.arcsinh)
_u("arccosh", np.arccosh, "gt1")
_u("arctanh", np.arctanh, "unit")
_u("abs", r_abs, "nonzero")
_u("absolute", r_abs, "nonzero")
_u("sqrt", r_sqrt, "pos")
_u("cbrt", r_cbrt, "nonzero")
_u("csc", lambda z: 1.0 / np.sin(_c(z)), "nz_small")
_u("sec", lambda z: 1.0 / np.cos(_c(z)), "unit")
_u("cot", lambda z: 1.0 / np.tan(_c(z)), "nz_small")
_u("arccsc", lambda z: np.arcsin(1.0 / _c(z)), "absgt1")
_u("arcsec", lambda z: np.arccos(1.0 / _c(z)), "absgt1")
_u("arccot", r_arccot, "nonzero")
_u("csch", lambda z: 1.0 / np.sinh(_c(z)), "nz_small")
_u("sech", lambda z: 1.0 / np.cosh(_c(z)), "small")
_u("coth", lambda z: 1.0 / np.tanh(_c(z)), "nz_small")
_u("arccsch", lambda z: np.arcsinh(1.0 / _c(z)), "nonzero")
_u("arccoth", lambda z: np.arctanh(1.0 / _c(z)), "absgt1")
_u("sinc", r_sinc, "nz_small")


def _nn(name, mgf, reff, dom="any"):
    _reg(name, 1, mgf, reff, [dom])


_nn("relu", lambda mg, a, p, kw: mg.nnet.relu(a[0], **kw), lambda a, p: r_relu(a[0]), "nonzero")
_nn("sigmoid", lambda mg, a, p, kw: mg.nnet.sigmoid(a[0], **kw), lambda a, p: r_sigmoid(a[0]), "small")
_nn("nn_tanh", lambda mg, a, p, kw: mg.nnet.tanh(a[0], **kw), lambda a, p: np.tanh(a[0]), "small")
_nn("selu", lambda mg, a, p, kw: mg.nnet.selu(a[0], **kw), lambda a, p: r_selu(a[0]), "nz_small")
_nn("soft_sign", lambda mg, a, p, kw: mg.nnet.soft_sign(a[0], **kw), lambda a, p: r_soft_sign(a[0]), "nonzero")
_nn(
    "leaky_relu",
    lambda mg, a, p, kw: mg.nnet.leaky_relu(a[0], p["slope"], **kw),
    lambda a, p: r_leaky_relu(a[0], p["slope"]),
    "nonzero",
)
_nn(
    "elu",
    lambda mg, a, p, kw: mg.nnet.elu(a[0], p["alpha"], **kw),
    lambda a, p: r_elu(a[0], p["alpha"]),
    "nz_small",
)
_nn(
    "hard_tanh",
    lambda mg, a, p, kw: mg.nnet.hard_tanh(a[0], lower_bound=p["lo"], upper_bound=p["hi"], **kw),
    lambda a, p: r_hard_tanh(a[0], p["lo"], p["hi"]),
)
_nn(
    "softmax",
    lambda mg, a, p, kw: mg.nnet.softmax(a[0], axis=_ax(p), **kw),
    lambda a, p: r_softmax(a[0], _ax(p)),
    "small",
)
_nn(
    "logsoftmax",
    lambda mg, a, p, kw: mg.nnet.logsoftmax(a[0], axis=_ax(p), **kw),
    lambda a, p: r_logsoftmax(a[0], _ax(p)),
    "small",
)
_nn(
    "glu",
    lambda mg, a, p, kw: mg.nnet.glu(a[0], axis=p["axis"], **kw),
    lambda a, p: r_glu(a[0], p["axis"]),
    "small",
)


# binary elementwise ------------------------------------------------------------
def _b(name, reff, dom=("any", "any")):
    _reg(
        name,
        2,
        lambda mg, a, p, kw, _n=name: getattr(mg, _n)(a[0], a[1], **_ufunc_kw(p, kw)),
        lambda a, p, _f=reff: _ufunc_post(_f(a[0], a[1]), a, p),
        list(dom),
    )


_b("add", lambda a, b: _c(a) + _c(b))
_b("subtract", lambda a, b: _c(a) - _c(b))
_b("multiply", lambda a, b: _c(a) * _c(b))
_b("divide", lambda a, b: _c(a) / _c(b), ("any", "nonzero"))
_b("power", r_power, ("pos", "small"))
_b("maximum", r_maximum)
_b("minimum", r_minimum)
_b("arctan2", r_arctan2, ("any", "nonzero"))
_b("logaddexp", r_logaddexp, ("small", "small"))
_b("logaddexp2", r_logaddexp2, ("small", "small"))

# operator spellings (same maths, different entry point) ---------------------------
import operator as _op

for _name, _f, _dom in [
    ("op_add", _op.add, ("any", "any")),
    ("op_sub", _op.sub, ("any", "any")),
    ("op_mul", _op.mul, ("any", "any")),
    ("op_truediv", _op.truediv, ("any", "nonzero")),
    ("op_pow", _op.pow, ("pos", "small")),
]:
    _reg(
        _name,
        2,
        lambda mg, a, p, kw, _f=_f: _f(a[0], a[1]),
        lambda a, p, _f=_f: _f(_c(a[0]), _c(a[1])),
        list(_dom),
    )
_reg("op_neg", 1, lambda mg, a, p, kw: -a[0], lambda a, p: -_c(a[0]))
_reg(
    "op_pow_int",
    1,
    lambda mg, a, p, kw: a[0] ** p["n"],
    lambda a, p: np.power(_c(a[0]), p["n"]),
    ["nonzero"],
)
_reg("op_matmul", 2, lambda mg, a, p, kw: a[0] @ a[1], lambda a, p: np.matmul(a[0], a[1]))
_reg("matmul", 2, lambda mg, a, p, kw: mg.matmul(a[0], a[1], **kw), lambda a, p: np.matmul(a[0], a[1]))


def _cond(p):
    # the condition may be given as booleans or as integers (counts / 0-1 masks): nonzero selects x
    c = np.array(p["cond"], dtype=bool).reshape(p["cshape"])
    dt = p.get("cdtype", "bool")
    if dt != "bool":
        c = c.astype(dt) * p.get("cscale", 1)
    return c


def _mg_where(mg, a, p, kw):
    return mg.where(_cond(p), a[0], a[1], **kw)


_reg(
    "where",
    2,
    _mg_where,
    lambda a, p: np.where(_cond(p), a[0], a[1]),
)


def _mg_clip(mg, a, p, kw):
    return mg.clip(a[0], p["lo"], p["hi"], **kw)


_reg("clip", 1, _mg_clip, lambda a, p: r_clip(a[0], p["lo"], p["hi"]))


# reductions ------------------------------------------------------------------------
def _red(name, reff, dom="any", method=False):
    def mgf(mg, a, p, kw, _n=name):
        k = dict(kw)
        if "axis" in p:
            k["axis"] = _ax(p)
        if "keepdims" in p:
            k["keepdims"] = p["keepdims"]
        if "ddof" in p:
            k["ddof"] = p["ddof"]
        if p.get("method"):
            return getattr(a[0], _n)(**k)
        return getattr(mg, _n)(a[0], **k)

    def rf(a, p, _f=reff):
        k = {}
        if "axis" in p:
            k["axis"] = _ax(p)
        if "keepdims" in p:
            k["keepdims"] = p["keepdims"]
        if "ddof" in p:
            k["ddof"] = p["ddof"]
        return _f(a[0], **k)

    _reg(name, 1, mgf, rf, [dom])


_red("sum", r_sum)
_red("mean", r_mean)
_red("prod", r_prod)
_red("max", r_max)
_red("min", r_min)
_red("var", r_var)
_red("std", r_std)
_reg(
    "cumsum",
    1,
    lambda mg, a, p, kw: mg.cumsum(a[0], axis=p["axis"], **kw),
    lambda a, p: r_cumsum(a[0], p["axis"]),
)
_reg(
    "cumprod",
    1,
    lambda mg, a, p, kw: mg.cumprod(a[0], axis=p["axis"], **kw),
    lambda a, p: r_cumprod(a[0], p["axis"]),
)


def _mg_norm(mg, a, p, kw):
    return mg.linalg.norm(a[0], ord=_ord(p), axis=_ax(p), keepdims=p.get("keepdims", False), **kw)


def _ord(p):
    o = p.get("ord")
    if o == "inf":
        return np.inf
    if o == "-inf":
        return -np.inf
    return o


_reg(
    "norm",
    1,
    _mg_norm,
    lambda a, p: r_norm(a[0], ord=_ord(p), axis=_ax(p), keepdims=p.get("keepdims", False)),
    ["nonzero"],
)


# shape / view ops --------------------------------------------------------------------
def dec_index(enc):
    """JSON index encoding {"t": is_tuple, "c": [components]} -> python index object.
    components: ["s",start,stop,step] | ["i",int] | ["n"] | ["e"] | ["a",flat,dtype,shape] |
    ["l",list] | ["b",flat,shape]"""
    out = []
    for c in enc["c"]:
        k = c[0]
        if k == "s":
            out.append(slice(c[1], c[2], c[3]))
        elif k == "i":
            out.append(int(c[1]))
        elif k == "n":
            out.append(None)
        elif k == "e":
            out.append(Ellipsis)
        elif k == "a":
            out.append(np.array(c[1], dtype=c[2]).reshape(c[3]))
        elif k == "l":
            out.append(list(c[1]))
        elif k == "b":
            out.append(np.array(c[1], dtype=bool).reshape(c[2]))
        else:  # pragma: no cover
            raise ValueError(c)
    if not enc["t"]:
        assert len(out) == 1
        return out[0]
    return tuple(out)


_reg("getitem", 1, lambda mg, a, p, kw: a[0][dec_index(p["index"])], lambda a, p: np.asarray(a[0][dec_index(p["index"])]), view=True)
_reg(
    "reshape",
    1,
    lambda mg, a, p, kw: (
        (a[0].reshape(*p["shape"], **kw) if p["shape"] else a[0].reshape((), **kw))
        if p.get("method")
        else mg.reshape(a[0], tuple(p["shape"]), **kw)
    ),
    lambda a, p: np.reshape(a[0], tuple(p["shape"])),
    view=True,
)
_reg("ravel", 1, lambda mg, a, p, kw: mg.ravel(a[0], **kw), lambda a, p: np.ravel(a[0]), view=True)
_reg("flatten", 1, lambda mg, a, p, kw: a[0].flatten(**kw), lambda a, p: np.asarray(a[0]).flatten())
_reg(
    "squeeze",
    1,
    lambda mg, a, p, kw: mg.squeeze(a[0], axis=_ax(p), **kw),
    lambda a, p: np.squeeze(a[0], axis=_ax(p)),
    view=True,
)
_reg(
    "expand_dims",
    1,
    lambda mg, a, p, kw: mg.expand_dims(a[0], p["axis"], **kw),
    lambda a, p: np.expand_dims(a[0], p["axis"]),
    view=True,
)
_reg(
    "broadcast_to",
    1,
    lambda mg, a, p, kw: mg.broadcast_to(a[0], tuple(p["shape"]), **kw),
    lambda a, p: np.broadcast_to(a[0], tuple(p["shape"])),
    view=True,
)
_reg(
    "transpose",
    1,
    lambda mg, a, p, kw: (mg.transpose(a[0], *p["axes"], **kw) if p.get("axes") is not None else mg.transpose(a[0], **kw)),
    lambda a, p: np.transpose(a[0], p.get("axes")),
    view=True,
)
_reg("T", 1, lambda mg, a, p, kw: a[0].T, lambda a, p: np.asarray(a[0]).T, view=True)
_reg(
    "swapaxes",
    1,
    lambda mg, a, p, kw: mg.swapaxes(a[0], p["a1"], p["a2"], **kw),
    lambda a, p: np.swapaxes(a[0], p["a1"], p["a2"]),
    view=True,
)
_reg(
    "moveaxis",
    1,
    lambda mg, a, p, kw: mg.moveaxis(a[0], p["src"], p["dst"], **kw),
    lambda a, p: np.moveaxis(a[0], p["src"], p["dst"]),
    view=True,
)
_reg(
    "roll",
    1,
    lambda mg, a, p, kw: mg.roll(a[0], _ax(p, "shift"), axis=_ax(p), **kw),
    lambda a, p: np.roll(a[0], _ax(p, "shift"), axis=_ax(p)),
)
_reg(
    "repeat",
    1,
    lambda mg, a, p, kw: mg.repeat(a[0], p["repeats"], axis=p["axis"], **kw),
    lambda a, p: np.repeat(a[0], p["repeats"], axis=p["axis"]),
)
for _k in (1, 2, 3):
    _reg(
        f"atleast_{_k}d",
        1,
        lambda mg, a, p, kw, _k=_k: getattr(mg, f"atleast_{_k}d")(a[0], **kw),
        lambda a, p, _k=_k: getattr(np, f"atleast_{_k}d")(a[0]),
        view=True,
    )
_reg(
    "diag_einsum",
    1,
    lambda mg, a, p, kw: mg.einsum("ii->i", a[0], **kw),
    lambda a, p: np.einsum("ii->i", a[0]),
    view=True,
)
_reg(
    "concatenate",
    None,
    lambda mg, a, p, kw: mg.concatenate(list(a), axis=p["axis"], **kw),
    lambda a, p: np.concatenate(list(a), axis=p["axis"]),
    nary=True,
)
_reg(
    "stack",
    None,
    lambda mg, a, p, kw: mg.stack(list(a), axis=p["axis"], **kw),
    lambda a, p: np.stack(list(a), axis=p["axis"]),
    nary=True,
)
_reg(
    "add_sequence",
    None,
    lambda mg, a, p, kw: mg.add_sequence(*a, **kw),
    lambda a, p: sum(_c(x) for x in a[1:]) + _c(a[0]),
    nary=True,
)
_reg(
    "multiply_sequence",
    None,
    lambda mg, a, p, kw: mg.multiply_sequence(*a, **kw),
    lambda a, p: _mulseq(a),
    nary=True,
)


def _mulseq(a):
    out = _c(a[0])
    for x in a[1:]:
        out = out * _c(x)
    return out


_reg(
    "einsum",
    None,
    lambda mg, a, p, kw: mg.einsum(p["subs"], *a, optimize=p.get("optimize", False), **kw),
    lambda a, p: np.asarray(np.einsum(p["subs"], *a, optimize=p.get("optimize", False))),  # (same memory layout as the call under test)
    nary=True,
    view=True,
)
_reg(
    "multi_matmul",
    None,
    lambda mg, a, p, kw: mg.multi_matmul(list(a), **kw),
    lambda a, p: _mmchain(a),
    nary=True,
)


def _mmchain(a):
    out = _c(a[0])
    for x in a[1:]:
        out = out @ _c(x)
    return out


# ----------------------------------------------------------------------------- domains
def dom_ok(kind, x):
    x = np.asarray(x).real
    if x.size == 0:
        return True
    if not np.all(np.isfinite(x)):
        return False
    ax = np.abs(x)
    if kind == "any":
        return True
    if kind == "small":
        return bool(np.all(ax < 4.0))
    if kind == "pos":
        return bool(np.all(x > 0.2) and np.all(x < 50))
    if kind == "unit":
        return bool(np.all(ax < 0.9))
    if kind == "gt1":
        return bool(np.all(x > 1.1) and np.all(x < 50))
    if kind == "absgt1":
        return bool(np.all(ax > 1.1) and np.all(ax < 50))
    if kind == "nonzero":
        return bool(np.all(ax > 0.1))
    if kind == "nz_small":
        return bool(np.all(ax > 0.1) and np.all(ax < 3.0))
    raise ValueError(kind)


# fix-up recipes: list of (opname, second-operand-scalar-or-None) applied in order
DOM_FIX = {
    "small": [("tanh", None), ("multiply", 3.0)],
    "pos": [("tanh", None), ("square", None), ("add", 0.5)],
    "unit": [("tanh", None), ("multiply", 0.85)],
    "gt1": [("tanh", None), ("square", None), ("add", 1.5)],
    "absgt1": [("tanh", None), ("square", None), ("add", 1.5)],
    "nonzero": [("tanh", None), ("square", None), ("add", 0.5)],
    "nz_small": [("tanh", None), ("square", None), ("multiply", 2.0), ("add", 0.5)],
}


_reg(
    "add_dtype",
    2,
    lambda mg, a, p, kw: mg.add(a[0], a[1], dtype=p["dtype"], **kw),
    lambda a, p: np.add(a[0], a[1], dtype=p["dtype"]),
)


# names that are genuine ufunc spellings (accept where= / dtype=)
UFUNC_NAMES = {"absolute", "abs", "add", "arccos", "arccosh", "arcsin", "arcsinh", "arctan", "arctan2", "arctanh", "cbrt",
               "cos", "cosh", "divide", "exp", "exp2", "expm1", "log", "log10", "log1p", "log2", "logaddexp", "logaddexp2",
               "maximum", "minimum", "multiply", "negative", "positive", "power", "reciprocal", "sin", "sinh", "sqrt",
               "square", "subtract", "tan", "tanh"}
