"""Naive, complex-safe reference implementations of MyGrad's nnet layers and losses, written from
their documented equations (element by element / placement by placement).  Registered in the op
table so that the program IR can call them; shared by C02 (VJP), C14 (gradient meta) and C16 (values).
REF never calls MyGrad."""

from __future__ import annotations

import itertools

import numpy as np

from vf import ref as R
from vf.ref import _c, _reg, r_sigmoid, r_logsoftmax, r_softmax


def _tup(v, n):
    if isinstance(v, (int, np.integer)):
        return (int(v),) * n
    return tuple(int(i) for i in v)


# --------------------------------------------------------------------------------------- validity
def conv_valid(xsp, wsp, stride, padding, dilation):
    """every placement inside the padded data and the placements tile it exactly"""
    for X, W, s, p, d in zip(xsp, wsp, stride, padding, dilation):
        if s < 1 or d < 1 or p < 0 or W < 1:
            return False
        ext = (W - 1) * d + 1
        if ext > X + 2 * p:
            return False
        if (X + 2 * p - ext) % s != 0:
            return False
    return True


def pool_valid(xsp, pool, stride):
    for X, P, s in zip(xsp, pool, stride):
        if s < 1 or P < 1 or P > X:
            return False
        if (X - P) % s != 0:
            return False
    return True


# --------------------------------------------------------------------------------------- layers
def ref_conv_nd(x, w, stride, padding=0, dilation=1):
    x, w = _c(x), _c(w)
    nsp = x.ndim - 2
    stride, padding, dilation = _tup(stride, nsp), _tup(padding, nsp), _tup(dilation, nsp)
    N, C = x.shape[:2]
    F = w.shape[0]
    dt = np.result_type(x.dtype, w.dtype)
    xp = np.zeros((N, C) + tuple(X + 2 * p for X, p in zip(x.shape[2:], padding)), dtype=dt)
    xp[(slice(None), slice(None)) + tuple(slice(p, p + X) for X, p in zip(x.shape[2:], padding))] = x
    out_sp = tuple((X + 2 * p - ((W - 1) * d + 1)) // s + 1
                   for X, W, s, p, d in zip(x.shape[2:], w.shape[2:], stride, padding, dilation))
    out = np.zeros((N, F) + out_sp, dtype=dt)
    for o in itertools.product(*[range(g) for g in out_sp]):
        for k in itertools.product(*[range(W) for W in w.shape[2:]]):
            pos = tuple(oi * s + ki * d for oi, s, ki, d in zip(o, stride, k, dilation))
            # out[n, f, o] += sum_c x[n, c, pos] * w[f, c, k]
            out[(slice(None), slice(None)) + o] += xp[(slice(None), slice(None)) + pos] @ w[(slice(None), slice(None)) + k].T
    return out


def ref_max_pool(x, pool, stride):
    x = _c(x)
    n = len(pool)
    stride = _tup(stride, n)
    lead = x.shape[: x.ndim - n]
    sp = x.shape[x.ndim - n:]
    out_sp = tuple((X - P) // s + 1 for X, P, s in zip(sp, pool, stride))
    out = np.zeros(lead + out_sp, dtype=x.dtype)
    for o in itertools.product(*[range(g) for g in out_sp]):
        win = x[(Ellipsis,) + tuple(slice(oi * s, oi * s + P) for oi, s, P in zip(o, stride, pool))]
        flat = win.reshape(lead + (-1,))
        re = flat.real
        m = re.max(axis=-1, keepdims=True)
        if np.any((np.abs(re - m) < R._margin()).sum(axis=-1) > 1):
            R._kink("max_pool_tie")
        idx = re.argmax(axis=-1)
        out[(Ellipsis,) + o] = np.take_along_axis(flat, idx[..., None], axis=-1)[..., 0]
    return out


def ref_batchnorm(x, gamma, beta, eps):
    x = _c(x)
    axes = tuple(i for i in range(x.ndim) if i != 1)
    mean = x.mean(axis=axes, keepdims=True)
    var = ((x - mean) ** 2).mean(axis=axes, keepdims=True)
    y = (x - mean) / np.sqrt(var + eps)
    shp = [1] * x.ndim
    shp[1] = x.shape[1]
    if gamma is not None:
        y = y * _c(gamma).reshape(shp)
    if beta is not None:
        y = y + _c(beta).reshape(shp)
    return y


def ref_gru(X, Uz, Wz, bz, Ur, Wr, br, Uh, Wh, bh, s0=None):
    X = _c(X)
    T, N, C = X.shape
    D = _c(Uz).shape[1]
    dt = np.result_type(*[_c(a).dtype for a in (X, Uz, Wz, bz, Ur, Wr, br, Uh, Wh, bh)] + ([_c(s0).dtype] if s0 is not None else []))
    S = np.zeros((T + 1, N, D), dtype=dt)
    if s0 is not None:
        S[0] = _c(s0)
    for t in range(T):
        prev = S[t]
        Z = r_sigmoid(X[t] @ Uz + prev @ Wz + bz)
        Rg = r_sigmoid(X[t] @ Ur + prev @ Wr + br)
        Hh = np.tanh(X[t] @ Uh + (Rg * prev) @ Wh + bh)
        S[t + 1] = (1 - Z) * Hh + Z * prev
    return S


# --------------------------------------------------------------------------------------- losses
def ref_softmax_crossentropy(x, y):
    x = _c(x)
    ls = r_logsoftmax(x, -1)
    n = x.shape[0]
    return -np.sum(ls[np.arange(n), y]) / n


def ref_nll(x, y, weights=None):
    # documented example: weights are per-class factors, the result is the mean over the N data
    x = _c(x)
    n = x.shape[0]
    picked = x[np.arange(n), y]
    if weights is None:
        return -np.sum(picked) / n
    w = np.asarray(weights).real[y]  # weights are plain (constant) factors
    return -np.sum(picked * w) / n


def ref_multiclass_hinge(x, y, hinge):
    x = _c(x)
    n, kk = x.shape
    tot = 0.0
    for i in range(n):
        for j in range(kk):
            if j == y[i]:
                continue
            m = x[i, j] - x[i, y[i]] + hinge
            if abs(m.real) < R._margin():
                R._kink("hinge@0")
            if m.real > 0:
                tot = tot + m
    return np.asarray(tot / n)


def ref_margin_ranking(x1, x2, y, margin):
    x1, x2 = _c(x1), _c(x2)
    y = np.asarray(y)
    if y.ndim and x1.ndim == 2:
        y = y.reshape(-1, 1)
    m = margin - y * (x1 - x2)
    if np.any(np.abs(m.real) < R._margin()):
        R._kink("margin@0")
    return np.asarray(np.mean(m * (m.real > 0)))


def ref_focal_loss(p, y, alpha, gamma):
    p = _c(p)
    n = p.shape[0]
    pc = p[np.arange(n), y]
    return -alpha * (1 - pc) ** gamma * np.log(pc)


def ref_softmax_focal_loss(x, y, alpha, gamma):
    return ref_focal_loss(r_softmax(_c(x), -1), y, alpha, gamma)


# --------------------------------------------------------------------------------------- registry
def _lab(p):
    return np.array(p["y"], dtype=p.get("ydtype", "int64"))


_reg(
    "conv_nd", 2,
    lambda mg, a, p, kw: mg.nnet.conv_nd(a[0], a[1], stride=_sp(p["stride"]), padding=_sp(p["padding"]), dilation=_sp(p["dilation"]), **kw),
    lambda a, p: ref_conv_nd(a[0], a[1], p["stride"], p["padding"], p["dilation"]),
)
_reg(
    "max_pool", 1,
    lambda mg, a, p, kw: mg.nnet.max_pool(a[0], tuple(p["pool"]), _sp(p["stride"]), **kw),
    lambda a, p: ref_max_pool(a[0], tuple(p["pool"]), p["stride"]),
)


def _sp(v):
    return tuple(v) if isinstance(v, list) else v


def _mg_bn(mg, a, p, kw):
    i = 1
    g = bt = None
    if p["gamma"]:
        g = a[i]
        i += 1
    if p["beta"]:
        bt = a[i]
    return mg.nnet.batchnorm(a[0], gamma=g, beta=bt, eps=p["eps"], **kw)


def _ref_bn(a, p):
    i = 1
    g = bt = None
    if p["gamma"]:
        g = a[i]
        i += 1
    if p["beta"]:
        bt = a[i]
    return ref_batchnorm(a[0], g, bt, p["eps"])


_reg("batchnorm", None, _mg_bn, _ref_bn, nary=True)
_reg(
    "gru", None,
    lambda mg, a, p, kw: mg.nnet.gru(*a[:10], s0=(a[10] if len(a) > 10 else None), **kw),
    lambda a, p: ref_gru(*a[:10], s0=(a[10] if len(a) > 10 else None)),
    nary=True,
)
_reg("softmax_crossentropy", 1, lambda mg, a, p, kw: mg.nnet.softmax_crossentropy(a[0], _lab_mg(mg, p), **kw),
     lambda a, p: ref_softmax_crossentropy(a[0], _lab(p)))
_reg(
    "negative_log_likelihood", None,
    lambda mg, a, p, kw: mg.nnet.negative_log_likelihood(a[0], _lab(p), weights=(a[1] if len(a) > 1 else None), **kw),
    lambda a, p: ref_nll(a[0], _lab(p), a[1] if len(a) > 1 else None),
    nary=True,
)
def _lab_mg(mg, p):
    """labels as handed to MyGrad: an integer ndarray, or (p["ytensor"]) an integer tensor"""
    y = _lab(p)
    return mg.tensor(y) if p.get("ytensor") else y


_reg("multiclass_hinge", 1, lambda mg, a, p, kw: mg.nnet.multiclass_hinge(a[0], _lab_mg(mg, p), p["hinge"], **kw),
     lambda a, p: ref_multiclass_hinge(a[0], _lab(p), p["hinge"]))
_reg("margin_ranking_loss", 2,
     lambda mg, a, p, kw: mg.nnet.margin_ranking_loss(a[0], a[1], (np.array(p["y"]) if isinstance(p["y"], list) else p["y"]), p["margin"], **kw),
     lambda a, p: ref_margin_ranking(a[0], a[1], p["y"], p["margin"]))
_reg("focal_loss", 1, lambda mg, a, p, kw: mg.nnet.focal_loss(a[0], _lab(p), alpha=p["alpha"], gamma=p["gamma"], **kw),
     lambda a, p: ref_focal_loss(a[0], _lab(p), p["alpha"], p["gamma"]))
_reg("softmax_focal_loss", 1,
     lambda mg, a, p, kw: mg.nnet.softmax_focal_loss(a[0], _lab(p), alpha=p["alpha"], gamma=p["gamma"], **kw),
     lambda a, p: ref_softmax_focal_loss(a[0], _lab(p), p["alpha"], p["gamma"]))
