"""Program IR shared by the program-quantified checks, with two interpreters:

  MG  - executes a program on real MyGrad tensors through the public API;
  REF - executes the same statements on NumPy arrays (float64 for values/shapes/sharing,
        complex128 with an i*h perturbation for exact derivatives), and maintains the structural
        model (memory owners, constant flags, differentiable dependencies).

A program is JSON: {"stmts": [...]}; handles are small ints.  See DESIGN.md §2.2.
"""

from __future__ import annotations

import operator

import numpy as np

from vf import ref as R
from vf.common import HarnessError, Mismatch, fmt_exc
from vf.ref import H, OPS, dec_index

# --------------------------------------------------------------------------------------- leaves


def leaf_values(st):
    shape = tuple(st["shape"])
    n = int(np.prod(shape)) if shape else 1
    vals = st["vals"]
    if len(vals) < n:
        vals = (list(vals) * (n // max(1, len(vals)) + 1))[:n]
    if "raw" in st:
        return np.array(st["raw"], dtype=st.get("dtype", "float64")).reshape(shape)
    if st["kind"] in ("intarray", "inttensor"):
        return np.array(vals[:n], dtype=st.get("dtype", "int64")).reshape(shape)
    if st["kind"] == "intscalar":
        return int(vals[0])
    if "exact" in st:
        return float(st["exact"])
    a = np.array([v / 16.0 + 0.0137 * ((k % 11) + 1) for k, v in enumerate(vals[:n])], dtype=np.float64)
    a = a.reshape(shape)
    dt = st.get("dtype", "float64")
    if dt != "float64":
        a = a.astype(dt)
    if st.get("order") == "F" and a.ndim >= 2:
        a = np.asfortranarray(a)
    lay = st.get("layout")
    if lay and a.ndim >= 1 and a.size > 0:
        a = apply_layout(a, lay)
    if st["kind"] == "scalar":
        return float(a.reshape(()))
    return a


def apply_layout(a, lay):
    """Same shape (and, except for 'bcast', same values) in a different memory layout."""
    if lay == "F":
        return np.asfortranarray(a) if a.ndim >= 2 else a
    if lay == "T":
        # transposed view of a C-contiguous buffer (same values; no layout flag set for ndim >= 3 partial permutations)
        return np.ascontiguousarray(a.T).T if a.ndim >= 2 else a
    if lay == "neg":
        return a[::-1].copy()[::-1]
    if lay == "sliced":
        big = np.zeros(a.shape[:-1] + (a.shape[-1] * 2,), dtype=a.dtype)
        big[..., ::2] = a
        return big[..., ::2]
    if lay == "bcast":
        return np.broadcast_to(a[:1], a.shape)  # 0-stride along axis 0 (read-only)
    if lay == "relaxed":
        ones = [i for i, n in enumerate(a.shape) if n == 1]
        if not ones:
            return a
        k = ones[0]
        core = np.array(np.squeeze(a, axis=k), copy=True, order="C")  # (keeps 0-d as 0-d)
        return core[(slice(None),) * k + (None,)]
    if lay == "offset":
        big = np.zeros((a.size + 3,), dtype=a.dtype)
        big[3:] = a.ravel()
        return big[3:].reshape(a.shape)
    return a


def mg_leaf(mg, st):
    v = leaf_values(st)
    k = st["kind"]
    nocopy = bool(st.get("layout")) and isinstance(v, np.ndarray)
    if k == "var":
        return mg.tensor(v, constant=st.get("constant"), copy=not nocopy)  # float -> non-constant by default
    if k == "const":
        return mg.tensor(v, constant=True, copy=not nocopy)
    if k == "inttensor":
        return mg.tensor(v)
    return v  # array / intarray / scalar / intscalar : handed to MyGrad as-is


LEAF_IS_TENSOR = {"var": True, "const": True, "inttensor": True, "array": False, "intarray": False,
                  "scalar": False, "intscalar": False}

# --------------------------------------------------------------------------------------- REF run


def _real_cast(x):
    """complex array with x's real part, zero imaginary part and x's memory layout class (axis order and broadcast
    (zero-stride) axes kept, so that NumPy's K-order output layouts agree between the real and the complex run)"""
    x = np.asarray(x)
    if x.ndim == 0 or 0 in x.shape:
        return x.real.astype(np.complex128)
    core = x[tuple(slice(0, 1) if (s == 0 and n > 1) else slice(None) for s, n in zip(x.strides, x.shape))]
    out = core.real.astype(np.complex128)
    return np.broadcast_to(out, x.shape) if out.shape != x.shape else out


class RefRun:
    """Executes a program on NumPy arrays; see module docstring."""

    def __init__(self, prog, cplx=False, perturb=None, kinklog=None, stop_at=None, flag_views="grad"):
        self.prog = prog
        # how a non-constant view of constant memory is modelled: "grad" = an independent tensor owning its
        # gradient (C01/C10 oracles); "memory" = an ordinary view (C04's sharing/base oracle)
        self.flag_views = flag_views
        self.cplx = cplx
        self.perturb = perturb  # (handle, flat_index, after_stmt_index)
        self.env = {}
        # structural model
        self.owner = {}
        self.const = {}
        self.is_tensor = {}
        self.isint = {}
        self.famver = {}
        self.D = {}
        self.created_at = {}
        self.last_write = {}
        self.imap = {}
        self.kinklog = kinklog
        self.maxabs = 0.0
        self.stop_at = stop_at
        self.failed_stmt = None
        self.nwrites = {}
        self.kind = {}
        self.flagmixed = set()
        self.vmask = {}
        self.lowprec = False

    # -- helpers
    def tok(self, h):
        o = self.owner[h]
        return (o, self.famver[o])

    def deps(self, h):
        if self.const[h]:
            return frozenset()
        return self.D.get(self.tok(h), frozenset())

    def _cast(self, a):
        a = np.asarray(a)
        if self.cplx:
            return a.astype(np.complex128)
        return a

    def _track(self, a):
        a = np.asarray(a)
        if a.size:
            with np.errstate(all="ignore"):
                m = float(np.max(np.abs(a)))
            if not np.isfinite(m):
                m = float("inf")
            self.maxabs = max(self.maxabs, m)

    def _new_owner(self, h, idx, const, deps, shape):
        self.owner[h] = h
        self.famver[h] = 0
        self.const[h] = const
        self.created_at[h] = idx
        self.last_write[h] = idx
        self.nwrites[h] = 0
        self.D[(h, 0)] = frozenset() if const else frozenset({(h, 0)}) | deps
        n = int(np.prod(shape)) if len(shape) else 1
        self.imap[h] = np.arange(n).reshape(shape)

    def run(self):
        R.set_kinklog(self.kinklog)
        try:
            for idx, st in enumerate(self.prog["stmts"]):
                if self.stop_at is not None and idx >= self.stop_at:
                    break
                self.exec(idx, st)
                if self.perturb is not None and self.perturb[2] == idx:
                    h, k, _ = self.perturb
                    arr = self.env[h]
                    ix = np.unravel_index(k, arr.shape) if arr.ndim else ()
                    arr[ix] += 1j * H
        finally:
            R.set_kinklog(None)
        return self

    # -- statements
    def exec(self, idx, st):
        k = st["k"]
        if k == "leaf":
            self._leaf(idx, st)
        elif k == "op":
            self._op(idx, st)
        elif k == "inplace":
            self._inplace(idx, st)
        elif k in ("backward", "clear", "drop", "null_grad", "fail", "guard"):
            pass
        else:  # pragma: no cover
            raise HarnessError(f"unknown stmt {k}")

    def _leaf(self, idx, st):
        h = st["h"]
        v = leaf_values(st)
        self.isint[h] = st["kind"] in ("intarray", "intscalar", "inttensor")
        if st.get("dtype") in ("float32", "float16"):
            self.lowprec = True  # MyGrad computes (part of) this program in low precision; REF always in float64
        a = np.array(v, dtype=np.float64 if not self.isint[h] else None)
        if st.get("order") == "F" and a.ndim >= 2:
            a = np.asfortranarray(a)
        if self.isint[h] and self.cplx:
            a = a.astype(np.float64)
        self.env[h] = self._cast(a).copy(order="K") if self.cplx else a
        self.is_tensor[h] = LEAF_IS_TENSOR[st["kind"]]
        self.kind[h] = st["kind"]
        const = not (st["kind"] == "var" and st.get("constant") is not True)
        self._new_owner(h, idx, const, frozenset(), self.env[h].shape)

    def _op(self, idx, st):
        od = OPS[st["op"]]
        args = [self.env[a] for a in st["args"]]
        if self.cplx and not od.view:
            # a constant never transmits a gradient: its consumers read its real part
            args = [_real_cast(x) if self.const[a] else x for x, a in zip(args, st["args"])]
        res = od.ref(args, st.get("p", {}))
        res = np.asarray(res)
        if self.cplx and od.view and any(self.const[a] for a in st["args"]) and res.size > 0 \
                and not any(np.shares_memory(res, x) for x in args):
            # a view-capable op (einsum) that computed a new array: like any computing op, it reads the real part of
            # its constant operands
            res = np.asarray(od.ref([_real_cast(x) if self.const[a] else x for x, a in zip(args, st["args"])], st.get("p", {})))
        if od.view and not st["op"].startswith("atleast_") and any(res is a for a in args):
            # NumPy handed back the operand itself (np.squeeze with nothing to squeeze); a Tensor result is
            # always a distinct object, so model it as a distinct view.  (mg.atleast_kd documents
            # returning the very same tensor, like NumPy, and is kept as an alias.)
            res = res.view()
        h = st["h"]
        pp = st.get("p") or {}
        if pp.get("where") is not None:
            m = np.array(pp["where"], dtype=bool).reshape(pp["wshape"])
            self.vmask[h] = np.broadcast_to(m, res.shape)
        if pp.get("dtype") == "float32":
            self.lowprec = True
        explicit = st.get("constant")
        allconst = all(self.const[a] for a in st["args"])
        const = explicit if explicit is not None else allconst
        self.isint[h] = all(self.isint[a] for a in st["args"]) and res.dtype.kind in "iub"
        if self.isint[h]:
            const = True
        self.is_tensor[h] = True
        # view?
        if not od.view and res.size > 0 and any(np.shares_memory(res, self.env[a]) for a in st["args"]):
            res = res.copy()  # non-view ops never alias their inputs (NumPy returns scalars/new arrays)
        parent = None
        if od.view and res.size > 0:
            for a in st["args"]:
                if np.shares_memory(res, self.env[a]):
                    parent = a
                    break
            if parent is not None and self.kind.get(parent) in ("scalar", "intscalar"):
                parent = None  # python scalars are copied into a fresh array: never a view
                res = res.copy()
            elif parent is not None and not const and self.const[self.owner[parent]] and self.flag_views == "grad":
                # a non-constant view of constant memory (explicit constant=False): its gradient is its own
                parent = None
                res = res.copy()
                self.flagmixed.add(h)
        if self.cplx and const and parent is None:
            res = res.real.astype(np.complex128)
        elif self.cplx and const and parent is not None and not self.const[parent] and self.flag_views == "grad":
            # constant view of a non-constant tensor: no gradient flows through it (in "memory" mode the view is kept -
            # writes through it must reach the base - and its consumers read its real part, see above)
            res = res.real.astype(np.complex128)
        if self.cplx and res.dtype != np.complex128:
            res = res.astype(np.complex128)
        self.env[h] = res
        self._track(res.real if self.cplx else res)
        d = frozenset().union(*[self.deps(a) for a in st["args"]]) if st["args"] else frozenset()
        if parent is not None:
            self.owner[h] = self.owner[parent]
            self.const[h] = const
            self.created_at[h] = idx
            self.imap[h] = np.asarray(od.ref([self.imap[parent]], st.get("p", {})))
        else:
            self._new_owner(h, idx, const, d, res.shape)

    def _inplace(self, idx, st):
        t = st["target"]
        kind = st["kind"]
        tgt = self.env[t]
        o = self.owner[t]
        vals = [self.env[a] for a in st.get("args", [])]
        if self.cplx:
            # the written memory belongs to the owner: nothing flows into a constant owner, and constant operands
            # transmit nothing
            vals = [_real_cast(v) if (self.const[o] or self.const[a]) else v
                    for v, a in zip(vals, st.get("args", []))]
            if self.flag_views == "memory-sever" and self.const[t] and not self.const[o] and kind != "shape":
                # model of a recorded finding (known_findings.json, C05-write-through-constant-view): a write through
                # a constant-flagged view detaches the old contents of the view's whole region from the graph
                tgt[...] = _real_cast(tgt)
        p = st.get("p", {})
        if kind == "setitem":
            tgt[dec_index(p["index"])] = vals[0]
        elif kind == "aug":
            # t <op>= v   ==  ufunc(t, v, out=t)
            res = OPS[st["op"]].ref([tgt] + vals, p)
            tgt[...] = res
        elif kind == "out":
            # ufunc(*args, out=t, where=mask)
            res = OPS[st["op"]].ref(vals, p)
            if p.get("where") is not None:
                mask = np.array(p["where"], dtype=bool).reshape(p["wshape"])
                np.copyto(tgt, np.broadcast_to(res, tgt.shape), where=mask)
            else:
                tgt[...] = res
        elif kind == "shape":
            if tuple(p["shape"]) == tgt.shape:
                return  # assigning the current shape is a no-op
            new = tgt.reshape(tuple(p["shape"]))
            aliases_owner = tgt is self.env.get(o)
            if tgt.size and not np.shares_memory(new, tgt):
                raise ValueError("incompatible shape for in-place modification")
            for h2 in list(self.env):
                # handles that alias the very same array object (e.g. np.atleast_1d(a) is a)
                if self.env[h2] is tgt:
                    self.env[h2] = new
                    self.imap[h2] = self.imap[h2].reshape(tuple(p["shape"]))
            # functionally x' = reshape(x): later reads see a new version of the family; re-shaping a
            # *view* leaves the owner (whose gradient defines the view's) untouched
            if o != t and not aliases_owner:
                return
        else:  # pragma: no cover
            raise HarnessError(kind)
        tgt = self.env[t]
        self._track(tgt.real if self.cplx else tgt)
        # dependency / version bookkeeping
        old = (o, self.famver[o])
        self.famver[o] += 1
        new = (o, self.famver[o])
        if self.const[o]:
            self.D[new] = frozenset()
        else:
            d = frozenset().union(*[self.deps(a) for a in st.get("args", [])]) if st.get("args") else frozenset()
            self.D[new] = frozenset({new}) | self.D.get(old, frozenset()) | d
        self.last_write[o] = idx
        self.nwrites[o] = self.nwrites.get(o, 0) + 1


# --------------------------------------------------------------------------------------- MG run

AUG = {
    "add": operator.iadd,
    "subtract": operator.isub,
    "multiply": operator.imul,
    "divide": operator.itruediv,
    "power": operator.ipow,
}


class MgRun:
    """Executes a program on MyGrad.  `self.error` is set (and execution stops) if MyGrad
    raises on a statement that the generator validated on REF."""

    def __init__(self, prog, hooks=None):
        import mygrad as mg

        self.mg = mg
        self.prog = prog
        self.env = {}
        self.error = None
        self.error_idx = None
        self.hooks = hooks or {}
        self.identity_violation = None
        self.fail_results = {}

    def run(self, stop_at=None):
        for idx, st in enumerate(self.prog["stmts"]):
            if stop_at is not None and idx >= stop_at:
                break
            pre = self.hooks.get("pre")
            if pre:
                pre(self, idx, st)
            if st["k"] == "fail":
                self._fail(idx, st)
            else:
                try:
                    self.exec(idx, st)
                except Exception as e:  # noqa: BLE001 - any exception on a validated stmt
                    self.error = e
                    self.error_idx = idx
                    return self
            post = self.hooks.get("post")
            if post:
                post(self, idx, st)
        return self

    def _fail(self, idx, st):
        inner = st["stmt"]
        try:
            self.exec(idx, inner)
        except Exception as e:  # expected
            self.fail_results[idx] = ("raised", type(e).__name__)
            return
        self.fail_results[idx] = ("no_raise", None)

    def exec(self, idx, st):
        mg = self.mg
        k = st["k"]
        env = self.env
        if k == "leaf":
            env[st["h"]] = mg_leaf(mg, st)
        elif k == "op":
            od = OPS[st["op"]]
            kw = {}
            if st.get("constant") is not None:
                kw["constant"] = np.bool_(True) if st["constant"] == "np_bool" else st["constant"]
            args = [env[a] for a in st["args"]]
            env[st["h"]] = od.mg(mg, args, st.get("p", {}), kw)
        elif k == "inplace":
            self._inplace(st)
        elif k == "backward":
            seed = st.get("seed")
            t = env[st["h"]]
            if seed is None:
                t.backward()
            else:
                t.backward(decode_seed(mg, seed))
        elif k == "clear":
            env[st["h"]].clear_graph()
        elif k == "null_grad":
            env[st["h"]].null_grad()
        elif k == "drop":
            env.pop(st["h"], None)
        elif k == "guard":
            (mg.turn_memory_guarding_on if st["on"] else mg.turn_memory_guarding_off)()
        elif k == "bad_out":
            # (only ever inside a "fail" statement) an op called with an out= ndarray that cannot be written
            vals = [env[a] for a in st["args"]]
            if st["mode"] == "native_ro":
                out = np.zeros(np.broadcast_shapes(*[np.shape(v) for v in vals]))
                out.flags.writeable = False
            else:
                out = vals[0].data  # read-only for as long as the op holds its operand
            getattr(np if st.get("via") == "np" else mg, st["op"])(*vals, out=out)
        else:  # pragma: no cover
            raise HarnessError(k)

    def _inplace(self, st):
        mg = self.mg
        env = self.env
        t = env[st["target"]]
        vals = [env[a] for a in st.get("args", [])]
        p = st.get("p", {})
        kind = st["kind"]
        if kind == "setitem":
            t[dec_index(p["index"])] = vals[0]
        elif kind == "aug":
            r = AUG[st["op"]](t, vals[0])
            if r is not t:
                self.identity_violation = f"augmented {st['op']} returned a different object"
        elif kind == "out":
            kw = {}
            if p.get("where") is not None:
                kw["where"] = np.array(p["where"], dtype=bool).reshape(p["wshape"])
            if p.get("constant") is not None:
                kw["constant"] = p["constant"]  # must be ignored: an in-place target keeps its own flag
            mod = np if p.get("via") == "np" else mg
            name = {"abs": "absolute"}.get(st["op"], st["op"])
            r = getattr(mod, name)(*vals, out=t, **kw)
            if r is not t:
                self.identity_violation = f"{mod.__name__}.{name}(out=t) returned a different object"
        elif kind == "shape":
            t.shape = tuple(p["shape"])
        else:  # pragma: no cover
            raise HarnessError(kind)


def decode_seed(mg, seed):
    kind = seed["kind"]
    if kind == "scalar":
        return float(seed["v"])
    a = np.array(seed["v"], dtype=seed.get("dtype", "float64")).reshape(seed["shape"])
    if seed.get("order") == "F":
        a = np.asfortranarray(a)
    if kind == "array":
        return a
    if kind == "tensor":
        return mg.tensor(a)
    if kind == "list":
        return a.tolist()
    raise HarnessError(kind)


def seed_array(seed, shape):
    if seed is None:
        return np.ones(shape)
    if seed["kind"] == "scalar":
        return np.full(shape, float(seed["v"]))
    a = np.array(seed["v"], dtype=np.float64).reshape(seed["shape"])
    return np.broadcast_to(a, shape)


# --------------------------------------------------------------------------------------- oracle


class Expected:
    """Expected state after `L.backward(seed)` for a program (computed by REF only)."""

    def __init__(self):
        self.values = {}
        self.grads = {}  # handle -> ndarray or None
        self.kinks = []
        self.gmax = 0.0
        self.vmax = 0.0
        self.ref = None
        self.ncomplex = 0
        self.lenient = set()


def expected_after_backward(prog, L, seed=None, upto=None, max_elems=400, flag_views="grad"):
    """Runs REF (real) for values/model, then complex-step per element of every non-constant
    memory owner that L depends on.  `upto`: index of the backward statement (program prefix)."""
    klog = R.KinkLog()
    real = RefRun(prog, cplx=False, kinklog=klog, stop_at=upto, flag_views=flag_views).run()
    exp = Expected()
    exp.ref = real
    exp.kinks = list(klog.kinks)
    exp.values = real.env
    exp.vmax = real.maxabs
    Lshape = real.env[L].shape
    g = seed_array(seed, Lshape)
    depsL = real.deps(L)
    owners = sorted({real.owner[h] for h in real.owner})
    total = 0
    own_grad = {}
    for o in owners:
        if real.const[o] or not real.is_tensor[o]:
            own_grad[o] = None
            continue
        if (o, real.famver[o]) not in depsL:
            own_grad[o] = None
            continue
        arr = real.env[o]
        n = arr.size
        total += n
        if total > max_elems:
            raise HarnessError("program too large for complex-step budget")
        gr = np.zeros(n)
        for kk in range(n):
            c = RefRun(prog, cplx=True, perturb=(o, kk, real.last_write[o]), stop_at=upto, flag_views=flag_views).run()
            exp.ncomplex += 1
            val = np.sum(g * c.env[L])
            gr[kk] = val.imag / H
        own_grad[o] = gr  # flat, indexed by owner's flat element index
        if n:
            m = float(np.max(np.abs(gr))) if np.all(np.isfinite(gr)) else float("inf")
            exp.gmax = max(exp.gmax, m)
    for h in real.env:
        if not real.is_tensor[h]:
            exp.grads[h] = None
            continue
        o = real.owner[h]
        if real.const[h] or own_grad.get(o) is None:
            exp.grads[h] = None
        else:
            exp.grads[h] = own_grad[o][real.imap[h]].reshape(real.env[h].shape)
            if o in real.flagmixed and o != h:
                # views of a non-constant view of constant memory: MyGrad's .base is the constant owner, so
                # "the view of base.grad" is None; both readings are accepted
                exp.lenient.add(h)
    return exp


def grad_tol(exp, dtype=np.float64):
    if getattr(exp.ref, "lowprec", False):
        dtype = np.float32  # a dtype=float32 option was used somewhere: the computation is single precision
    eps = np.finfo(dtype).eps
    scale = (1.0 + exp.gmax) * (1.0 + min(exp.vmax, 1e6))
    atol = 4e6 * eps * scale * 1e-1  # float64: ~1e-10 * scale
    rtol = 5e8 * eps * 1e-1 * 10  # float64: ~1e-7
    return rtol, atol


def compare_grads(exp, mgrun, handles=None, dtype=np.float64, check_values=True):
    """Returns a Mismatch or None."""
    env = mgrun.env
    mg = mgrun.mg
    rtol, atol = grad_tol(exp, dtype)
    kink = bool(exp.kinks)
    illcond = not np.isfinite(exp.gmax) or exp.gmax > 1e8 or exp.vmax > 1e8
    for h in sorted(env if handles is None else handles):
        if h not in env:
            continue
        t = env[h]
        if not isinstance(t, mg.Tensor):
            continue
        if check_values and h in exp.values:
            ev = exp.values[h]
            if t.shape != ev.shape:
                return Mismatch("value_shape", f"h{h}: {t.shape} != {ev.shape}", h=h)
            vm = exp.ref.vmask.get(h)
            td, evv = (t.data, ev) if vm is None else (t.data[vm], ev[vm])
            lp = getattr(exp.ref, "lowprec", False)
            if not np.allclose(td, evv, rtol=1e-9 if (dtype == np.float64 and not lp) else 1e-4,
                               atol=(1e-9 if not lp else 1e-5) * (1 + exp.vmax), equal_nan=True):
                return Mismatch("value", f"h{h}: forward value differs from NumPy reference", h=h)
        eg = exp.grads.get(h)
        g = t.grad
        if eg is None:
            if g is not None and t.size == 0:
                continue  # empty tensors: NumPy reports no memory sharing, nothing to compare
            if g is not None:
                return Mismatch("grad_not_none", f"h{h}: expected no gradient, got {np.asarray(g).tolist()!r}"[:300], h=h)
            continue
        if g is None:
            if not np.any(eg) or h in exp.lenient:
                continue  # reference gradient identically zero: None and zeros both mean "no contribution"
            return Mismatch("grad_none", f"h{h}: expected a gradient, got None", h=h)
        if g.shape != t.shape or g.shape != eg.shape:
            return Mismatch("grad_shape", f"h{h}: grad shape {g.shape}, tensor {t.shape}", h=h)
        if kink or illcond or h in exp.lenient:
            continue
        if not np.allclose(g, eg, rtol=rtol, atol=atol, equal_nan=False):
            with np.errstate(all="ignore"):
                err = float(np.max(np.abs(np.asarray(g, dtype=np.float64) - eg)))
            return Mismatch(
                "grad_value",
                f"h{h}: |mg-ref|max={err:.3e} tol(r={rtol:.1e},a={atol:.1e}) mg={np.asarray(g).ravel()[:6].tolist()} ref={eg.ravel()[:6].tolist()}",
                h=h,
            )
    return None
