"""Property-based verification machinery for rsokl/MyGrad (see /verif/DESIGN.md)."""
