"""Shared plumbing: state reset, case recording, the Hypothesis driver, mismatch type.

Every check has the shape

    strategy -> case (JSON-serialisable) -> check_case(case) -> None | Mismatch

``drive`` runs that under Hypothesis with a seed derived from VERIF_SEED, records what the
generator produced, routes known findings, and returns the shrunk failing case (if any).
"""

from __future__ import annotations

import gc
import hashlib
import json
import os
import traceback
from typing import Any, Callable, Dict, List, Optional

import numpy as np

REPO_SRC = os.environ.get("VERIF_SRC_OVERRIDE", "/repo/src")


class HarnessError(Exception):
    """Something is wrong with the machinery itself (never reported as a violation)."""


class Mismatch:
    """An observed disagreement between MyGrad and the oracle."""

    def __init__(self, kind: str, detail: str = "", **extra):
        self.kind = kind
        self.detail = detail
        self.extra = extra

    def to_json(self):
        d = {"kind": self.kind, "detail": self.detail}
        d.update({k: jsonable(v) for k, v in self.extra.items()})
        return d

    def __repr__(self):
        return f"Mismatch({self.kind}: {self.detail})"


class Violation(Exception):
    def __init__(self, case, mismatch: Mismatch):
        super().__init__(repr(mismatch))
        self.case = case
        self.mismatch = mismatch


def jsonable(x):
    if isinstance(x, (np.generic,)):
        return x.item()
    if isinstance(x, np.ndarray):
        return x.tolist()
    if isinstance(x, dict):
        return {str(k): jsonable(v) for k, v in x.items()}
    if isinstance(x, (list, tuple)):
        return [jsonable(v) for v in x]
    if isinstance(x, (str, int, float, bool)) or x is None:
        return x
    return repr(x)


def case_hash(obj) -> str:
    s = json.dumps(jsonable(obj), sort_keys=True, default=repr)
    return hashlib.blake2b(s.encode(), digest_size=8).hexdigest()


def derive_seed(base: int, *parts) -> int:
    h = hashlib.blake2b(repr((base,) + parts).encode(), digest_size=8).digest()
    return int.from_bytes(h, "big") % (2**63)


_DEFAULT_GUARD = True


_RESETS = 0


def reset_mygrad():
    """Bring MyGrad's process-global state back to its defaults so that a case is a pure
    function of the code under test."""
    import mygrad  # noqa: F401
    import mygrad._utils.graph_tracking as _track
    import mygrad._utils.lock_management as _mem

    _track.TRACK_GRAPH = True
    _mem.MEM_GUARD = True
    for mgr in (_track.no_autodiff, _mem.mem_guard_off, _mem.mem_guard_on):
        mgr._depth = 0
        mgr._depth_tracker.clear()
    gc.collect()
    global _RESETS
    _RESETS += 1
    if _RESETS % 64 == 0:
        # whatever survived the collection belongs to the harness (Hypothesis' search tree, recorders): park it in the
        # permanent generation so that the per-case collections do not re-traverse an ever growing heap (a long run
        # was quadratic without this)
        gc.freeze()
    _mem._array_counter.clear()
    _mem._array_tracker.clear()
    _mem._views_waiting_for_unlock.clear()


def assert_repo_under_test():
    import mygrad

    path = os.path.realpath(mygrad.__file__)
    want = os.path.realpath(REPO_SRC)
    if not path.startswith(want + os.sep):
        raise HarnessError(f"mygrad imported from {path}, expected under {want}")


class Recorder:
    """Counts what a shard's generator actually produced."""

    def __init__(self, max_samples: int = 4):
        self.evaluations = 0
        self.nontrivial = set()
        self.classes: Dict[str, int] = {}
        self.samples: List[Any] = []
        self.max_samples = max_samples
        self.sample_stride = 37
        self._next_sample = 20
        self.known: Dict[str, int] = {}
        self.flaky_discarded = 0
        self.extra: Dict[str, Any] = {}

    def note(self, key, nontrivial: bool, labels=(), sample=None):
        """key: canonical (hashable-by-json) description used for distinctness."""
        self.evaluations += 1
        if nontrivial:
            h = case_hash(key)
            if h not in self.nontrivial and len(self.samples) < self.max_samples:
                # spread samples over the run (early Hypothesis examples are degenerate)
                if self.evaluations >= self._next_sample:
                    self.samples.append(jsonable(sample if sample is not None else key))
                    self._next_sample = self.evaluations + self.sample_stride
            self.nontrivial.add(h)
        for lab in labels:
            self.classes[lab] = self.classes.get(lab, 0) + 1

    def label(self, lab, n=1):
        self.classes[lab] = self.classes.get(lab, 0) + n

    def result(self):
        return {
            "evaluations": self.evaluations,
            "nontrivial": sorted(self.nontrivial),
            "classes": self.classes,
            "samples": self.samples,
            "known": self.known,
            "flaky_discarded": self.flaky_discarded,
            "extra": jsonable(self.extra),
            "violations": [],
        }


def drive(
    *,
    prop: str,
    name: str,
    strategy,
    check_case: Callable[[Any], Optional[Mismatch]],
    rec: Recorder,
    seed: int,
    max_examples: int,
    shrink: bool = True,
    known_matcher: Optional[Callable[[Any, Mismatch], Optional[str]]] = None,
    stateful: bool = False,
) -> List[dict]:
    """Run `check_case` over `max_examples` generated cases.  Returns a list (0 or 1 entries)
    of violation records {check, case, mismatch}.  Mismatches recognised by `known_matcher`
    are counted in rec.known and do not stop the search."""
    import hypothesis
    from hypothesis import HealthCheck, Phase, given, settings

    if known_matcher is None:
        from vf import known as _known

        def known_matcher(case, mm, _p=prop):
            return _known.match(_p, case, mm)

    holder = {"last": None}

    def body(case):
        try:
            mm = check_case(case)
        except Violation:
            raise
        except HarnessError as e:
            if "complex-step budget" in str(e):
                # the generated program is larger than the exact-derivative reference can afford: the case is
                # discarded (counted), never a verdict
                rec.classes["discarded_over_reference_budget"] = rec.classes.get("discarded_over_reference_budget", 0) + 1
                return
            raise
        except Exception:
            # a crash of the machinery itself: keep the case for debugging (reported as a harness error, exit 2)
            try:
                d = os.path.join(os.path.dirname(os.path.dirname(os.path.abspath(__file__))), "evidence", "replay")
                os.makedirs(d, exist_ok=True)
                with open(os.path.join(d, f"HARNESS-{prop}-{name}.json"), "w") as f:
                    json.dump({"property": prop, "check": name, "case": jsonable(case)}, f)
            except Exception:  # noqa: BLE001
                pass
            raise
        if mm is None:
            return
        kid = known_matcher(case, mm)
        if kid is not None:
            rec.known[kid] = rec.known.get(kid, 0) + 1
            return
        holder["last"] = (case, mm)
        raise Violation(case, mm)

    phases = [Phase.generate] + ([Phase.shrink] if shrink else [])
    st_settings = settings(
        max_examples=max_examples,
        deadline=None,
        database=None,
        derandomize=False,
        report_multiple_bugs=False,
        phases=phases,
        suppress_health_check=list(HealthCheck),
        print_blob=False,
    )

    test = hypothesis.seed(seed)(st_settings(given(strategy)(body)))
    try:
        test()
    except Violation:
        case, mm = holder["last"]
        # reproduce twice more on fresh state; discard flaky failures
        for _ in range(2):
            mm2 = check_case(case)
            if mm2 is None or known_matcher(case, mm2) is not None:
                rec.flaky_discarded += 1
                return []
        return [{"check": name, "case": jsonable(case), "mismatch": mm.to_json()}]
    return []


def fmt_exc(e: BaseException) -> str:
    return "".join(traceback.format_exception_only(type(e), e)).strip()[:400]
