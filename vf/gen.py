"""State-aware program generators (Hypothesis composite strategies).

The builder executes REF (float64) while generating, so a statement is only emitted when its
operands' current values satisfy the op's precondition; out-of-domain operands are first mapped
into the domain by *emitted* smooth statements (tanh/square/add...), never by rejection.
"""

from __future__ import annotations

import numpy as np
from hypothesis import strategies as st

from vf import ref as R
from vf.ir import RefRun
from vf.ref import OPS, dom_ok, DOM_FIX, dec_index

UNARY_SMOOTH = [
    "negative", "positive", "square", "reciprocal", "exp", "exp2", "expm1", "log", "log2", "log10",
    "log1p", "sin", "cos", "tan", "arcsin", "arccos", "arctan", "sinh", "cosh", "tanh", "arcsinh",
    "arccosh", "arctanh", "sqrt", "csc", "sec", "cot", "arccsc", "arcsec", "arccot", "csch",
    "sech", "coth", "arccsch", "arccoth", "sinc", "sigmoid", "nn_tanh", "op_neg",
]
UNARY_KINKY = ["abs", "absolute", "cbrt", "relu", "selu", "soft_sign", "leaky_relu", "elu", "hard_tanh"]
BINARY = ["add", "subtract", "multiply", "divide", "power", "maximum", "minimum", "arctan2",
          "logaddexp", "logaddexp2", "op_add", "op_sub", "op_mul", "op_truediv", "op_pow"]
COMMUTATIVE = {"add", "multiply", "maximum", "minimum", "logaddexp", "logaddexp2", "op_add", "op_mul",
               "add_sequence", "multiply_sequence"}
REDUCE = ["sum", "mean", "prod", "max", "min", "var", "std"]
VIEWS = ["getitem", "reshape", "ravel", "squeeze", "expand_dims", "broadcast_to", "transpose", "T",
         "swapaxes", "moveaxis", "atleast_1d", "atleast_2d", "atleast_3d", "diag_einsum"]
NONVIEW_SHAPE = ["flatten", "roll", "repeat", "getitem_adv", "cumsum", "cumprod", "softmax", "logsoftmax",
                 "glu", "norm", "clip", "where"]
NARY = ["concatenate", "stack", "add_sequence", "multiply_sequence", "einsum", "matmul", "op_matmul"]
NARY_DRAW = NARY + ["einsum", "einsum"]  # (einsum keeps per-op state keyed by operand identity: drawn more often)

MAXVAL = 60.0


class Builder:
    def __init__(self, draw, max_elems=24, allow_int=True):
        self.draw = draw
        self.stmts = []
        self.prog = {"stmts": self.stmts}
        self.ref = RefRun(self.prog)
        self.nh = 0
        self.max_elems = max_elems
        self.allow_int = allow_int
        self.labels = set()
        self.use_count = {}
        self.allow_const_flag = False
        self.allow_const_view = False
        self.views_tensors_only = False
        self.recency_bias = True
        self.allow_empty = False
        self.const_flag_odds = 11
        self.ufunc_options = False
        self.ufunc_where = True
        self.allow_const_false = False

    # ---- low-level emit
    def _emit(self, st_):
        idx = len(self.stmts)
        self.stmts.append(st_)
        try:
            R.set_kinklog(None)
            self.ref.exec(idx, st_)
        except Exception:
            self.stmts.pop()
            raise
        return idx

    def try_emit(self, st_):
        """Emit if REF accepts the statement and values stay tame; else return False."""
        snap_max = self.ref.maxabs
        try:
            with np.errstate(all="ignore"):
                self._emit(st_)
        except Exception:
            return False
        h = st_.get("h")
        if h is not None and st_["k"] == "op":
            v = self.ref.env[h]
            if v.size == 0 and not self.allow_empty:
                # empty intermediates are exercised per-op by C02; excluded (and counted) here
                self.labels.add("excluded_empty_result")
                self._undo_last_op(h)
                self.ref.maxabs = snap_max
                return False
            if v.size and (not np.all(np.isfinite(v)) or np.max(np.abs(v)) > MAXVAL):
                self._undo_last_op(h)
                self.ref.maxabs = snap_max
                return False
        return True

    def _undo_last_op(self, h):
        self.stmts.pop()
        r = self.ref
        for d in (r.env, r.owner, r.const, r.is_tensor, r.isint, r.created_at, r.imap):
            d.pop(h, None)
        r.famver.pop(h, None)
        r.D.pop((h, 0), None)
        r.last_write.pop(h, None)
        r.nwrites.pop(h, None)

    def new_handle(self):
        h = self.nh
        self.nh += 1
        return h

    # ---- leaves
    def leaf(self, kind, shape, dtype="float64", order="C", constant=None, lo=-48, hi=48, layout=None, band=None):
        """band=(a, b): magnitudes are drawn from [a, b] and the sign separately (values on both sides of 0 that stay
        clear of it - for operations whose domain excludes a neighbourhood of 0 or of [-1, 1])"""
        n = int(np.prod(shape)) if len(shape) else 1
        if kind in ("intarray", "intscalar", "inttensor"):
            vals = self.draw(st.lists(st.integers(1, 4), min_size=n, max_size=n))
        elif band is not None:
            mags = self.draw(st.lists(st.integers(band[0], band[1]), min_size=n, max_size=n))
            signs = self.draw(st.lists(st.booleans(), min_size=n, max_size=n))
            vals = [m if sgn else -m for m, sgn in zip(mags, signs)]
        else:
            vals = self.draw(st.lists(st.integers(lo, hi), min_size=n, max_size=n))
        h = self.new_handle()
        s = {"k": "leaf", "h": h, "kind": kind, "shape": list(shape), "vals": vals}
        if dtype != "float64":
            s["dtype"] = dtype
        if order != "C":
            s["order"] = order
        if constant is not None:
            s["constant"] = constant
        if layout is not None:
            s["layout"] = layout
        self._emit(s)
        return h

    def scalar_leaf(self, value=None):
        """python float scalar with a fixed value (vals encodes it)."""
        h = self.new_handle()
        if value is None:
            v = self.draw(st.integers(-32, 32))
        else:
            v = value
        s = {"k": "leaf", "h": h, "kind": "scalar", "shape": [], "vals": [v]}
        self._emit(s)
        return h

    def const_scalar(self, x):
        """python float scalar with exact value x (used by domain fix-ups)."""
        h = self.new_handle()
        s = {"k": "leaf", "h": h, "kind": "scalar", "shape": [], "vals": [0], "exact": x}
        self._emit(s)
        return h

    # ---- ops
    def op(self, name, args, p=None, constant=None):
        h = self.new_handle()
        s = {"k": "op", "h": h, "op": name, "args": list(args)}
        if p:
            s["p"] = p
        if constant is not None:
            s["constant"] = constant
        if self.try_emit(s):
            for a in args:
                self.use_count[a] = self.use_count.get(a, 0) + 1
            return h
        self.nh -= 1
        return None

    def val(self, h):
        return self.ref.env[h]

    def shape(self, h):
        return self.ref.env[h].shape

    def fix_domain(self, h, kind):
        """Returns a handle whose current value lies in domain `kind` (emitting smooth fix-up
        statements if needed)."""
        if kind == "any" or dom_ok(kind, self.val(h)):
            return h
        cur = h
        for opname, scalar in DOM_FIX[kind]:
            if scalar is None:
                nxt = self.op(opname, [cur])
            else:
                c = self.const_scalar(scalar)
                nxt = self.op(opname, [cur, c])
            if nxt is None:
                return None
            cur = nxt
        if not dom_ok(kind, self.val(cur)):
            return None
        self.labels.add("domain_fixup")
        return cur

    # ---- handle selection
    def float_handles(self, tensors_only=False, min_ndim=0):
        out = []
        for h, v in self.ref.env.items():
            if self.ref.isint.get(h):
                continue
            if tensors_only and not self.ref.is_tensor[h]:
                continue
            if v.ndim < min_ndim:
                continue
            out.append(h)
        return out

    def pick(self, cands):
        if not cands:
            return None
        if len(cands) > 1 and self.draw(st.integers(0, 4)) == 0:
            # layout-dependent code paths (ravel/reshape/argmax/copies) only show on operands that are not laid out
            # row-major: prefer those now and then
            odd = [h for h in cands if h in self.ref.env and getattr(self.ref.env[h], "ndim", 0) >= 2
                   and not self.ref.env[h].flags.c_contiguous]
            if odd:
                cands = odd
        # bias toward recent handles and toward re-use: draw two, take the later w.p. 1/2
        i = self.draw(st.integers(0, len(cands) - 1))
        if len(cands) > 2 and self.recency_bias:
            j = self.draw(st.integers(0, len(cands) - 1))
            i = max(i, j)
        return cands[i]


# ------------------------------------------------------------------------------- param strategies


def draw_axis(draw, ndim, allow_tuple=True, allow_none=True, allow_neg=True):
    choices = []
    if allow_none:
        choices.append("none")
    if ndim >= 1:
        choices.append("int")
        if allow_tuple:
            choices += ["tuple", "empty"] if ndim >= 1 else []
    kind = draw(st.sampled_from(choices)) if choices else "none"
    if kind == "none":
        return None
    if kind == "int":
        a = draw(st.integers(0, ndim - 1))
        return a - ndim if (allow_neg and draw(st.booleans())) else a
    if kind == "empty":
        return []
    k = draw(st.integers(1, ndim))
    axes = draw(st.permutations(list(range(ndim))))[:k]
    return [a - ndim if (allow_neg and draw(st.booleans())) else a for a in axes]


def draw_basic_index(draw, shape, allow_newaxis=True, nonempty=True):
    """Basic index (always yields a view for ndim>=1 results)."""
    comps = []
    nd = len(shape)
    use_ellipsis = draw(st.integers(0, 4)) == 0
    dims = list(range(nd))
    k = draw(st.integers(0, nd))
    picked = dims[:k]
    for d in picked:
        n = shape[d]
        if allow_newaxis and draw(st.integers(0, 7)) == 0:
            comps.append(["n"])
        kind = draw(st.sampled_from(["slice", "slice", "int", "full"]))
        if n == 0:
            kind = "full"
        if kind == "int":
            i = draw(st.integers(-n, n - 1))
            comps.append(["i", i])
        elif kind == "full":
            comps.append(["s", None, None, None])
        else:
            step = draw(st.sampled_from([1, 1, 2, -1, -2, 3]))
            a = draw(st.integers(-n, n - 1))
            b = draw(st.integers(-n, n))
            start = draw(st.sampled_from([None, a]))
            stop = draw(st.sampled_from([None, b]))
            sl = slice(start, stop, step)
            if nonempty and len(range(*sl.indices(n))) == 0:
                sl = slice(None, None, step)
            comps.append(["s", sl.start, sl.stop, sl.step])
    if use_ellipsis:
        comps.append(["e"])
    elif not comps:
        comps.append(["e"])
    if allow_newaxis and draw(st.integers(0, 9)) == 0:
        comps.append(["n"])
    tup = len(comps) != 1 or draw(st.booleans())
    return {"t": tup, "c": comps}


INT_INDEX_DTYPES = ["int64", "int64", "int32", "int16", "uint8", "int8", "uint32"]


def draw_adv_index(draw, shape, allow_repeat=True):
    """Advanced / boolean / mixed index into an array of ndim>=1."""
    nd = len(shape)
    kind = draw(st.sampled_from(["intarr", "intarr", "bool", "mixed", "list", "multi"]))
    if int(np.prod(shape)) == 0:
        return {"t": False, "c": [["s", None, None, None]]}, "basic"
    if kind == "bool":
        n = int(np.prod(shape))
        full = draw(st.booleans()) or nd == 1
        if full:
            bits = draw(st.lists(st.booleans(), min_size=n, max_size=n))
            if not any(bits):
                bits[draw(st.integers(0, n - 1))] = True
            return {"t": False, "c": [["b", bits, list(shape)]]}, "bool"
        bits = draw(st.lists(st.booleans(), min_size=shape[0], max_size=shape[0]))
        if not any(bits):
            bits[0] = True
        return {"t": False, "c": [["b", bits, [shape[0]]]]}, "bool"
    n0 = shape[0]
    k = draw(st.integers(1, 4))
    dt = draw(st.sampled_from(INT_INDEX_DTYPES))
    unsigned = dt.startswith("u")
    lo = 0 if unsigned else -n0
    if allow_repeat:
        idx = draw(st.lists(st.integers(lo, n0 - 1), min_size=k, max_size=k))
    else:
        idx = draw(st.permutations(list(range(n0))))[: min(k, n0)]
        k = len(idx)
    if kind == "list":
        return {"t": False, "c": [["l", [int(i) for i in idx]]]}, "list"
    if kind == "intarr" or nd == 1:
        two_d = draw(st.integers(0, 3)) == 0 and k in (2, 4)
        shp = [2, k // 2] if two_d else [k]
        return {"t": draw(st.booleans()), "c": [["a", [int(i) for i in idx], dt, shp]]}, "intarr"
    if kind == "mixed":
        # int array on axis 0, slice on axis 1
        n1 = shape[1]
        step = draw(st.sampled_from([1, 2, -1]))
        return {"t": True, "c": [["a", [int(i) for i in idx], dt, [k]], ["s", None, None, step]]}, "mixed"
    # multi: int arrays on axes 0 and 1 (broadcast together)
    n1 = shape[1]
    idx1 = draw(st.lists(st.integers(0, n1 - 1), min_size=k, max_size=k))
    dt1 = draw(st.sampled_from(INT_INDEX_DTYPES))
    return {"t": True, "c": [["a", [int(i) for i in idx], dt, [k]], ["a", [int(i) for i in idx1], dt1, [k]]]}, "multi"


def draw_view_params(draw, name, shape):
    """Params for a view-producing op on an operand of `shape`; None if not applicable."""
    nd = len(shape)
    size = int(np.prod(shape)) if nd else 1
    if name == "getitem":
        return {"index": draw_basic_index(draw, shape)}
    if name == "reshape":
        cands = _reshapes(shape)
        new = draw(st.sampled_from(cands))
        if draw(st.integers(0, 3)) == 0 and len(new) >= 1:
            new = list(new)
            new[draw(st.integers(0, len(new) - 1))] = -1
        p = {"shape": list(new)}
        if draw(st.booleans()):
            p["method"] = True
        return p
    if name in ("ravel", "T", "atleast_1d", "atleast_2d", "atleast_3d"):
        return {}
    if name == "squeeze":
        ones = [i for i, s in enumerate(shape) if s == 1]
        kind = draw(st.sampled_from(["none", "some"]))
        if kind == "none" or not ones:
            return {"axis": None}
        k = draw(st.integers(1, len(ones)))
        ax = draw(st.permutations(ones))[:k]
        ax = [a - nd if draw(st.booleans()) else a for a in ax]
        return {"axis": ax[0] if (len(ax) == 1 and draw(st.booleans())) else list(ax)}
    if name == "expand_dims":
        if nd >= 4:
            return None
        return {"axis": draw(st.integers(-nd - 1, nd))}
    if name == "broadcast_to":
        if nd >= 3:
            lead = []
        else:
            lead = draw(st.lists(st.integers(1, 2), min_size=0, max_size=3 - nd))
        new = list(lead) + [s if s != 1 else draw(st.integers(1, 3)) for s in shape]
        if int(np.prod(new)) > 36:
            return None
        return {"shape": new}
    if name == "transpose":
        if draw(st.integers(0, 3)) == 0:
            return {"axes": None}
        perm = list(draw(st.permutations(list(range(nd)))))
        perm = [a - nd if draw(st.integers(0, 3)) == 0 else a for a in perm]
        return {"axes": perm}
    if name == "swapaxes":
        if nd < 1:
            return None
        return {"a1": draw(st.integers(-nd, nd - 1)), "a2": draw(st.integers(-nd, nd - 1))}
    if name == "moveaxis":
        if nd < 1:
            return None
        return {"src": draw(st.integers(-nd, nd - 1)), "dst": draw(st.integers(-nd, nd - 1))}
    if name == "diag_einsum":
        if nd != 2 or shape[0] != shape[1]:
            return None
        return {}
    return None


def _reshapes(shape):
    size = int(np.prod(shape)) if len(shape) else 1
    out = [[size], [1, size], [size, 1]]
    for a in range(1, size + 1):
        if size % a == 0:
            b = size // a
            out.append([a, b])
            for c in range(1, b + 1):
                if b % c == 0:
                    out.append([a, c, b // c])
    if size == 1:
        out.append([])
    return out


def draw_reduce_params(draw, name, shape):
    nd = len(shape)
    p = {}
    if name in ("var", "std"):
        ax = draw_axis(draw, nd)
        axes = R._norm_axes(tuple(ax) if isinstance(ax, list) else ax, nd)
        n = int(np.prod([shape[a] for a in axes])) if axes else 1
        if ax == []:
            n = 1
        ddof = draw(st.sampled_from([0, 0, 1]))
        if n - ddof <= 0 or (name == "std" and n < 2):
            return None
        if ax is not None or draw(st.booleans()):
            p["axis"] = ax
        if ddof or draw(st.booleans()):
            p["ddof"] = ddof
    else:
        ax = draw_axis(draw, nd)
        if ax is not None or draw(st.booleans()):
            p["axis"] = ax
        if name in ("max", "min") and ax == []:
            # numpy: max over an empty tuple of axes is the identity
            pass
    if draw(st.booleans()):
        p["keepdims"] = draw(st.booleans())
    if draw(st.integers(0, 3)) == 0 and name in ("sum", "mean", "prod", "max", "min", "var", "std"):
        p["method"] = True
    return p


# ------------------------------------------------------------------------------- functional programs

EINSUM_1 = {
    1: ["i->", "i->i", "i", "...->..."],
    2: ["ij->ji", "ij->", "ij->i", "ij->j", "ij", "ji", "...j->...", "i...->..."],
    3: ["ijk->kji", "ijk->ik", "ijk->", "...j->...", "ijk->jki"],
}
EINSUM_SQ = ["ii->i", "ii", "ii->"]


def bshape_ok(s1, s2, cap):
    try:
        s = np.broadcast_shapes(tuple(s1), tuple(s2))
    except ValueError:
        return False
    return int(np.prod(s)) <= cap if len(s) else True


def step_unary(b: Builder, name=None):
    d = b.draw
    name = name or d(st.sampled_from(UNARY_SMOOTH + UNARY_SMOOTH + UNARY_KINKY))
    a = b.pick(b.float_handles())
    if a is None:
        return None
    od = OPS[name]
    a = b.fix_domain(a, od.dom[0])
    if a is None:
        return None
    if name == "op_neg" and not b.ref.is_tensor[a]:
        name = "negative"
    p = {}
    if name == "leaky_relu":
        p = {"slope": d(st.sampled_from([0.1, 0.01, 0.5, 2.0]))}
    elif name == "elu":
        p = {"alpha": d(st.sampled_from([1.0, 0.5, 2.0]))}
    elif name == "hard_tanh":
        lo = d(st.sampled_from([-1.0, -0.5, -2.0]))
        p = {"lo": lo, "hi": lo + d(st.sampled_from([1.0, 2.0, 3.5]))}
    p.update(draw_ufunc_options(b, name, [b.shape(a)]))
    return b.op(name, [a], p, constant=draw_const_flag(b) if not name.startswith("op_") else None)


def draw_ufunc_options(b, name, shapes):
    """where= / dtype= for ufunc spellings (only when enabled on the builder)"""
    if not b.ufunc_options or name not in R.UFUNC_NAMES:
        return {}
    d = b.draw
    out = {}
    r = d(st.integers(0, 7))
    if r in (0, 1) and b.ufunc_where:
        shape = list(np.broadcast_shapes(*[tuple(s_) for s_ in shapes]))
        k = d(st.integers(0, len(shape)))
        wshape = [1 if d(st.integers(0, 4)) == 0 else x for x in shape[k:]]
        n = int(np.prod(wshape)) if wshape else 1
        out["where"] = d(st.lists(st.booleans(), min_size=n, max_size=n))
        out["wshape"] = wshape
        b.labels.add("where_mask")
    if r in (1, 2):
        out["dtype"] = d(st.sampled_from(["float32", "float64"]))
        b.labels.add("dtype_option")
    return out


def draw_const_flag(b, is_view=False):
    if not b.allow_const_flag:
        return None
    if getattr(b, "flag_only_views", False) and not is_view:
        return None
    r = b.draw(st.integers(0, b.const_flag_odds))
    if r == 0:
        return True
    if r == 1 and b.allow_const_false:
        return False
    return None


def step_binary(b: Builder, name=None):
    d = b.draw
    name = name or d(st.sampled_from(BINARY))
    a = b.pick(b.float_handles())
    if a is None:
        return None
    sa = b.shape(a)
    # partner: any handle (floats, ints, scalars) whose shape broadcasts with a's
    cands = [h for h in b.ref.env if bshape_ok(sa, b.shape(h), b.max_elems)]
    if not b.allow_int:
        cands = [h for h in cands if not b.ref.isint[h]]
    int_ok_ops = ("add", "subtract", "multiply", "divide", "maximum", "minimum", "op_add", "op_sub", "op_mul",
                  "op_truediv")
    if name not in int_ok_ops and name not in ("power", "op_pow"):
        cands = [h for h in cands if not b.ref.isint[h]]
    mode = d(st.integers(0, 5))
    if mode == 0 or not cands:
        c = b.scalar_leaf()
    elif mode == 1 and b.allow_int:
        c = b.leaf("intscalar", [])
    else:
        c = b.pick(cands)
    od = OPS[name]
    if name in ("power", "op_pow"):
        if b.ref.isint[c]:
            a2 = b.fix_domain(a, "nonzero")
            if a2 is None:
                return None
            args = [a2, c]
        else:
            a2 = b.fix_domain(a, "pos")
            c2 = b.fix_domain(c, "small")
            if a2 is None or c2 is None:
                return None
            args = [a2, c2]
    else:
        swap = d(st.booleans())
        x, y = (c, a) if swap else (a, c)
        x2 = b.fix_domain(x, od.dom[0])
        y2 = b.fix_domain(y, od.dom[1]) if x2 is not None else None
        if x2 is None or y2 is None:
            return None
        args = [x2, y2]
    if name.startswith("op_") and not any(b.ref.is_tensor[h] for h in args):
        name = {"op_add": "add", "op_sub": "subtract", "op_mul": "multiply", "op_truediv": "divide",
                "op_pow": "power"}[name]
    kw_const = draw_const_flag(b) if not name.startswith("op_") else None
    p = draw_ufunc_options(b, name, [b.shape(h) for h in args]) or None
    return b.op(name, args, p, constant=kw_const)


def step_reduce(b: Builder, name=None):
    d = b.draw
    name = name or d(st.sampled_from(REDUCE + ["cumsum", "cumprod", "norm"]))
    a = b.pick(b.float_handles())
    if a is None:
        return None
    shp = b.shape(a)
    if name in ("cumsum", "cumprod"):
        nd = len(shp)
        ax = None if nd == 0 or d(st.integers(0, 3)) == 0 else d(st.integers(-nd, nd - 1))
        return b.op(name, [a], {"axis": ax}, constant=draw_const_flag(b))
    if name == "norm":
        nd = len(shp)
        if nd == 0:
            return None
        a = b.fix_domain(a, "nonzero")
        if a is None:
            return None
        o = d(st.sampled_from([None, 1, 2, 3, 0.5, "inf", "-inf"]))
        ax = d(st.sampled_from([None] + list(range(-nd, nd)))) if nd == 1 or o is None else d(st.integers(-nd, nd - 1))
        if ax is None and nd > 1 and o is not None:
            return None
        p = {"ord": o, "axis": ax, "keepdims": d(st.booleans())}
        return b.op(name, [a], p, constant=draw_const_flag(b))
    p = draw_reduce_params(d, name, shp)
    if p is None:
        return None
    if p.get("method") and not b.ref.is_tensor[a]:
        p.pop("method")
    return b.op(name, [a], p, constant=draw_const_flag(b) if not p.get("method") else None)


def step_view(b: Builder, names=None, name=None):
    d = b.draw
    name = name or d(st.sampled_from(names or VIEWS))
    a = b.pick(b.float_handles(tensors_only=(name in ("T",)) or b.views_tensors_only))
    if a is None:
        return None
    p = draw_view_params(d, name, b.shape(a))
    if p is None:
        return None
    if p.get("method") and not b.ref.is_tensor[a]:
        p.pop("method")
    if name == "getitem" and not b.ref.is_tensor[a]:
        return None
    cf = None
    if name not in ("getitem", "T") and not p.get("method") and b.allow_const_view:
        cf = draw_const_flag(b, is_view=True)
        if cf is not None and name.startswith("atleast_"):
            # known finding C04-atleast-kd-constant-alias (test-pinned upstream: the pass-through returns the operand
            # itself, so an explicit flag cannot be honoured): excluded by construction from every generator and
            # counted; its saved case is replayed by C04's regression tier
            b.labels.add("excluded_known_atleast_kd_constant")
            cf = None
    return b.op(name, [a], p, constant=cf)


def step_shape_nonview(b: Builder, name=None):
    d = b.draw
    name = name or d(st.sampled_from(["flatten", "roll", "repeat", "getitem_adv", "softmax", "logsoftmax", "glu", "clip",
                                      "where"]))
    tensors_only = name in ("flatten", "getitem_adv")
    a = b.pick(b.float_handles(tensors_only=tensors_only))
    if a is None:
        return None
    shp = b.shape(a)
    nd = len(shp)
    if name == "flatten":
        return b.op("flatten", [a], None, constant=draw_const_flag(b))
    if name == "roll":
        if nd == 0 or d(st.integers(0, 3)) == 0:
            return b.op("roll", [a], {"shift": d(st.integers(-3, 3)), "axis": None})
        ax = d(st.integers(-nd, nd - 1))
        return b.op("roll", [a], {"shift": d(st.integers(-3, 3)), "axis": ax})
    if name == "repeat":
        if nd == 0 or d(st.integers(0, 3)) == 0:
            rep = d(st.integers(0, 2))
            if rep * max(1, int(np.prod(shp))) > b.max_elems:
                return None
            return b.op("repeat", [a], {"repeats": rep, "axis": None})
        ax = d(st.integers(-nd, nd - 1))
        n = shp[ax]
        if d(st.booleans()):
            rep = d(st.integers(0, 2))
        else:
            rep = d(st.lists(st.integers(0, 2), min_size=n, max_size=n))
        return b.op("repeat", [a], {"repeats": rep, "axis": ax})
    if name == "getitem_adv":
        if nd == 0:
            return None
        idx, kind = draw_adv_index(d, shp)
        b.labels.add("advidx_" + kind)
        return b.op("getitem", [a], {"index": idx})
    if name in ("softmax", "logsoftmax"):
        a = b.fix_domain(a, "small")
        if a is None:
            return None
        nd = len(b.shape(a))
        ax = draw_axis(d, nd, allow_tuple=True, allow_none=True)
        if ax == []:
            ax = None
        return b.op(name, [a], {"axis": ax}, constant=draw_const_flag(b))
    if name == "glu":
        evens = [i for i, s in enumerate(shp) if s % 2 == 0 and s > 0]
        if not evens:
            return None
        a = b.fix_domain(a, "small")
        if a is None:
            return None
        ax = d(st.sampled_from(evens))
        return b.op("glu", [a], {"axis": ax - nd if d(st.booleans()) else ax})
    if name == "clip":
        lo = d(st.sampled_from([None, -1.0, -0.33, 0.0]))
        hi = d(st.sampled_from([None, 0.5, 1.0, 2.25]))
        if lo is None and hi is None:
            lo = -0.5
        return b.op("clip", [a], {"lo": lo, "hi": hi}, constant=draw_const_flag(b))
    if name == "where":
        cands = [h for h in b.float_handles() if bshape_ok(shp, b.shape(h), b.max_elems)]
        c = b.pick(cands)
        if c is None:
            return None
        out_shape = np.broadcast_shapes(shp, b.shape(c))
        n = int(np.prod(out_shape)) if len(out_shape) else 1
        cond = d(st.lists(st.booleans(), min_size=n, max_size=n))
        p = {"cond": cond, "cshape": list(out_shape)}
        if d(st.integers(0, 2)) == 0:
            p["cdtype"] = d(st.sampled_from(["int64", "int8", "uint8", "float64"]))
            p["cscale"] = d(st.sampled_from([1, 2, 3]))
        return b.op("where", [a, c], p, constant=draw_const_flag(b))
    return None


def step_nary(b: Builder, name=None):
    d = b.draw
    name = name or d(st.sampled_from(NARY_DRAW + ["multi_matmul"]))
    # (einsum can return a view: in histories it is only applied to tensors, like every view op)
    fl = b.float_handles(tensors_only=b.views_tensors_only and name == "einsum")
    a = b.pick(fl)
    if a is None:
        return None
    shp = b.shape(a)
    nd = len(shp)
    if name in ("concatenate", "stack"):
        same = [h for h in fl if b.shape(h) == shp]
        k = d(st.integers(1, 3))
        args = [a] + [b.pick(same) for _ in range(k - 1)]
        size = int(np.prod(shp)) if nd else 1
        if size * len(args) > b.max_elems * 2:
            return None
        if name == "concatenate":
            if nd == 0:
                return None
            ax = d(st.integers(-nd, nd - 1))
            if d(st.integers(0, 5)) == 0:
                ax = None
        else:
            ax = d(st.integers(-nd - 1, nd))
        return b.op(name, args, {"axis": ax}, constant=draw_const_flag(b))
    if name in ("add_sequence", "multiply_sequence"):
        k = d(st.integers(2, 4))
        args = [a]
        cur = shp
        for _ in range(k - 1):
            cands = [h for h in fl if bshape_ok(cur, b.shape(h), b.max_elems)]
            c = b.pick(cands)
            if c is None:
                break
            args.append(c)
            cur = np.broadcast_shapes(cur, b.shape(c))
        if len(args) < 2:
            return None
        return b.op(name, args, None, constant=draw_const_flag(b))
    if name == "einsum":
        return _einsum_step(b, a, fl)
    if name == "multi_matmul":
        if nd not in (1, 2):
            return None
        args = [a]  # (a 1-D first operand is a row vector, a 1-D last operand a column vector - as for multi_dot)
        cur = shp[-1]
        n_more = d(st.integers(1, 3))
        for i in range(n_more):
            m = d(st.integers(1, 3))
            last_1d = i == n_more - 1 and d(st.integers(0, 2)) == 0
            args.append(b.leaf(d(st.sampled_from(["var", "var", "const", "array"])), [cur] if last_1d else [cur, m]))
            cur = m
        return b.op("multi_matmul", args, None, constant=draw_const_flag(b))
    # matmul
    if nd == 0:
        return None
    k = shp[-1]
    cands = [h for h in fl if len(b.shape(h)) >= 1 and _mm_ok(shp, b.shape(h), b.max_elems)]
    if cands and d(st.integers(0, 3)) > 0:
        c = b.pick(cands)
    else:
        m = d(st.integers(1, 3))
        kind = d(st.sampled_from(["var", "var", "const", "array"]))
        c = b.leaf(kind, [k, m] if d(st.booleans()) else [k])
    args = [a, c]
    if name == "op_matmul" and not any(b.ref.is_tensor[h] for h in args):
        name = "matmul"
    return b.op(name, args, None, constant=draw_const_flag(b) if name == "matmul" else None)


def _mm_ok(s1, s2, cap):
    try:
        out = np.matmul(np.empty(s1), np.empty(s2)).shape
    except ValueError:
        return False
    return (int(np.prod(out)) if len(out) else 1) <= cap


def _einsum_step(b, a, fl):
    d = b.draw
    shp = b.shape(a)
    nd = len(shp)
    if nd == 0 or nd > 3:
        return None
    mode = d(st.integers(0, 2))
    if mode == 0:
        opts = list(EINSUM_1[nd])
        if nd == 2 and shp[0] == shp[1]:
            opts += EINSUM_SQ
        subs = d(st.sampled_from(opts))
        return b.op("einsum", [a], {"subs": subs, "optimize": d(st.booleans())})
    # two operands
    letters = "ijk"[:nd]
    if mode == 1:
        # same-shape partner (possibly the same tensor object): elementwise / full contraction
        same = [h for h in fl if b.shape(h) == shp]
        # the very same tensor twice half of the time (einsum de-duplicates identical operand/label pairs)
        c = a if d(st.booleans()) else (b.pick(same) or a)
        out = d(st.sampled_from([letters, "", letters[0], letters[-1], letters[::-1]]))
        subs = f"{letters},{letters}->{out}"
        return b.op("einsum", [a, c], {"subs": subs, "optimize": d(st.booleans())})
    # contraction over last axis of a with first axis of partner
    k = shp[-1]
    cands = [h for h in fl if len(b.shape(h)) in (1, 2) and b.shape(h)[0] == k]
    if cands:
        c = b.pick(cands)
    else:
        c = b.leaf("var", [k, d(st.integers(1, 3))])
    nd2 = len(b.shape(c))
    l2 = letters[-1] + ("z" if nd2 == 2 else "")
    out = letters[:-1] + ("z" if nd2 == 2 else "")
    if d(st.integers(0, 3)) == 0:
        subs = f"{letters},{l2}"  # implicit output
    else:
        subs = f"{letters},{l2}->{out}"
    return b.op("einsum", [a, c], {"subs": subs, "optimize": d(st.booleans())})


STEP_TABLE = [
    (step_unary, 5),
    (step_binary, 7),
    (step_reduce, 3),
    (step_view, 4),
    (step_shape_nonview, 3),
    (step_nary, 3),
]


def draw_shape(draw, max_ndim=3, max_side=3, cap=24, min_side=1):
    nd = draw(st.integers(0, max_ndim))
    shape = [draw(st.integers(min_side, max_side)) for _ in range(nd)]
    while (int(np.prod(shape)) if shape else 1) > cap:
        shape[shape.index(max(shape))] -= 1
    return shape


def shape_variant(draw, base):
    """A shape that broadcasts against `base`."""
    mode = draw(st.integers(0, 5))
    if mode <= 1:
        return list(base)
    if mode == 2:
        return []
    k = draw(st.integers(0, len(base)))
    s = list(base[k:])
    return [1 if draw(st.integers(0, 3)) == 0 else x for x in s]


@st.composite
def functional_program(draw, max_ops=10, min_ops=1, max_elems=24, allow_int=True, allow_const_flag=True,
                       allow_const_view=True, dtypes=("float64",), leaf_kinds=None, const_flag_odds=11,
                       allow_const_false=False, ufunc_options=False, ufunc_where=True):
    b = Builder(draw, max_elems=max_elems, allow_int=allow_int)
    b.ufunc_options = ufunc_options
    b.ufunc_where = ufunc_where
    b.allow_const_flag = allow_const_flag
    b.allow_const_view = allow_const_view
    b.const_flag_odds = const_flag_odds
    b.allow_const_false = allow_const_false
    base = draw_shape(draw, cap=max_elems // 2 if max_elems >= 8 else max_elems)
    nleaves = draw(st.integers(1, 4))
    kinds = leaf_kinds or ["var", "var", "var", "var", "const", "array", "scalar"] + (["intarray"] if allow_int else [])
    have_var = False
    for i in range(nleaves):
        kind = draw(st.sampled_from(kinds)) if (have_var or i < nleaves - 1) else "var"
        shape = [] if kind in ("scalar", "intscalar") else shape_variant(draw, base)
        dt = draw(st.sampled_from(list(dtypes))) if kind in ("var", "const", "array") else "float64"
        order = "F" if (len(shape) >= 2 and draw(st.integers(0, 4)) == 0) else "C"
        if kind == "scalar":
            b.scalar_leaf()
        else:
            b.leaf(kind, shape, dtype=dt, order=order)
        have_var = have_var or kind == "var"
    nops = draw(st.integers(min_ops, max_ops))
    fns = [f for f, w in STEP_TABLE for _ in range(w)]
    made = 0
    attempts = 0
    while made < nops and attempts < nops * 3:
        attempts += 1
        f = draw(st.sampled_from(fns))
        h = f(b)
        if h is not None:
            made += 1
    return b


# ------------------------------------------------------------------------------- histories (in-place)

OUT_UNARY = ["exp", "sin", "square", "negative", "tanh", "positive", "sqrt", "abs", "cos", "log", "reciprocal"]
OUT_BINARY = ["add", "multiply", "subtract", "divide", "maximum", "minimum", "power"]
AUG_OPS = ["add", "subtract", "multiply", "divide", "power"]


def writable_targets(b: Builder):
    out = []
    for h, v in b.ref.env.items():
        if not b.ref.is_tensor[h] or b.ref.isint[h]:
            continue
        if not v.flags.writeable:
            continue
        out.append(h)
    return out


def _not_const_view(b: Builder, hs):
    """drops constant-flagged views of non-constant memory: `v += x` / `np.f(v, out=v)` through such a view reads the
    view (no gradient) and writes the base (gradient) - which derivative "the recorded computation" then has is not
    settled by the property, so only pure writes (set-item) go through them"""
    r = b.ref
    return [h for h in hs if not (r.const[h] and not r.const[r.owner[h]])]


def _value_for(b: Builder, shape, allow_handles=True, dom="any"):
    """A handle whose value broadcasts to `shape` (existing handle, new array leaf, or scalar)."""
    d = b.draw
    mode = d(st.integers(0, 5))
    if mode <= 2 and allow_handles:
        cands = []
        for h, v in b.ref.env.items():
            if b.ref.isint[h]:
                continue
            try:
                if np.broadcast_shapes(v.shape, tuple(shape)) == tuple(shape):
                    cands.append(h)
            except ValueError:
                pass
        if cands:
            h = b.pick(cands)
            if dom_ok(dom, b.val(h)):
                return h
    if mode == 3:
        h = b.scalar_leaf()
    else:
        sub = list(shape)
        k = d(st.integers(0, len(sub)))
        sub = sub[k:]
        sub = [1 if d(st.integers(0, 4)) == 0 else x for x in sub]
        kind = d(st.sampled_from(["array", "var", "var", "const"]))
        h = b.leaf(kind, sub)
    if not dom_ok(dom, b.val(h)):
        h2 = b.fix_domain(h, dom)
        return h2
    return h


def step_setitem(b: Builder):
    d = b.draw
    t = b.pick(writable_targets(b))
    if t is None:
        return None
    shp = b.shape(t)
    nd = len(shp)
    if nd == 0 or d(st.integers(0, 2)) == 0:
        index = draw_basic_index(d, shp, allow_newaxis=nd > 0 and d(st.integers(0, 3)) == 0)
        kind = "basic"
    else:
        index, kind = draw_adv_index(d, shp)
    try:
        sel_shape = b.val(t)[dec_index(index)].shape
    except Exception:
        return None
    v = _value_for(b, sel_shape)
    if v is None:
        return None
    if kind != "basic" and b.val(v).size > 0 and np.shares_memory(b.val(v), b.val(t)):
        # NumPy does not define the result of an advanced/boolean-index assignment whose value overlaps the target
        # (it may read elements it has just written; MyGrad reads the value first)
        b.labels.add("excluded_overlapping_fancy_assignment")
        return None
    s = {"k": "inplace", "kind": "setitem", "target": t, "args": [v], "p": {"index": index}}
    if b.try_emit(s):
        b.labels.add("setitem_" + kind)
        return t
    return None


def step_aug(b: Builder):
    d = b.draw
    t = b.pick(_not_const_view(b, writable_targets(b)))
    if t is None:
        return None
    name = d(st.sampled_from(AUG_OPS))
    od = OPS[name]
    if not dom_ok(od.dom[0], b.val(t)):
        name = "add"
        od = OPS[name]
    v = _value_for(b, b.shape(t), dom=od.dom[1])
    if v is None:
        return None
    s = {"k": "inplace", "kind": "aug", "op": name, "target": t, "args": [v]}
    if b.try_emit(s):
        return t
    return None


def step_out(b: Builder):
    d = b.draw
    t = b.pick(_not_const_view(b, writable_targets(b)))
    if t is None:
        return None
    shp = b.shape(t)
    unary = d(st.booleans())
    name = d(st.sampled_from(OUT_UNARY if unary else OUT_BINARY))
    od = OPS[name]
    args = []
    for i in range(1 if unary else 2):
        # operands may include the target itself (e.g. np.exp(t, out=t))
        if d(st.integers(0, 3)) == 0 and dom_ok(od.dom[i], b.val(t)):
            args.append(t)
            continue
        v = _value_for(b, shp, dom=od.dom[i])
        if v is None:
            return None
        args.append(v)
    p = {}
    if d(st.booleans()):
        # where mask broadcastable to target shape
        k = d(st.integers(0, len(shp)))
        wshape = [1 if d(st.integers(0, 4)) == 0 else x for x in shp[k:]]
        n = int(np.prod(wshape)) if wshape else 1
        p["where"] = d(st.lists(st.booleans(), min_size=n, max_size=n))
        p["wshape"] = wshape
    if d(st.integers(0, 2)) == 0:
        p["via"] = "np"
    elif d(st.integers(0, 3)) == 0:
        p["constant"] = d(st.booleans())  # explicit constant= together with out=<Tensor>
        b.labels.add("out_with_constant_kw")
    s = {"k": "inplace", "kind": "out", "op": name, "target": t, "args": args, "p": p}
    if b.try_emit(s):
        b.labels.add("out_where" if "where" in p else "out")
        return t
    return None


def step_shape_assign(b: Builder):
    d = b.draw
    t = b.pick(writable_targets(b))
    if t is None:
        return None
    new = d(st.sampled_from(_reshapes(b.shape(t))))
    s = {"k": "inplace", "kind": "shape", "target": t, "p": {"shape": list(new)}}
    if b.try_emit(s):
        b.labels.add("shape_assign")
        return t
    return None


def step_read(b: Builder):
    f = b.draw(st.sampled_from([step_unary, step_binary, step_binary, step_reduce, step_shape_nonview, step_nary, step_nary]))
    return f(b)


HISTORY_STEPS = [
    (step_view, 6),
    (step_read, 5),
    (step_setitem, 6),
    (step_aug, 3),
    (step_out, 3),
    (step_shape_assign, 1),
]


@st.composite
def history_program(draw, max_steps=14, max_elems=16, with_shape_assign=True, with_fail=False, flagged_views=False,
                    allow_guard_off=True):
    b = Builder(draw, max_elems=max_elems, allow_int=False)
    if flagged_views:
        # view ops may carry an explicit constant= flag.  "all": True and False (C04: values/sharing do not depend on
        # flags); "const_only": only constant=True views (C05: a constant view never transmits a gradient, while a
        # write through it still lands in - and differentiates through - the base's memory)
        b.ref.flag_views = "memory"
        b.allow_const_flag = True
        b.allow_const_view = True
        b.allow_const_false = flagged_views != "const_only"
        b.const_flag_odds = 6
        b.flag_only_views = True
    b.views_tensors_only = True
    nleaves = draw(st.integers(1, 3))
    for i in range(nleaves):
        kind = "var" if i == 0 else draw(st.sampled_from(["var", "var", "const", "array"]))
        shape = draw_shape(draw, max_ndim=3, max_side=4, cap=max_elems)
        if i == 0 and not shape:
            shape = [draw(st.integers(2, 5))]
        order = "F" if (len(shape) >= 2 and draw(st.integers(0, 3)) == 0) else "C"
        if order == "F":
            b.labels.add("F_ordered_leaf")
        b.leaf(kind, shape, order=order)
    nsteps = draw(st.integers(2, max_steps))
    fns = [f for f, w in HISTORY_STEPS for _ in range(w) if with_shape_assign or f is not step_shape_assign]
    if with_fail:
        fns = fns + [step_fail] * 7
    # the process-wide memory-guard switch may be flipped at drawn points of the history (values, sharing and
    # gradients must not depend on it)
    # (only for the history as a whole: flipping the switch while graphs are alive is not a documented use)
    guard_mode = draw(st.sampled_from(["on", "on", "on", "off"])) if allow_guard_off else "on"
    if guard_mode == "off":
        b.stmts.append({"k": "guard", "on": False})
        b.labels.add("mem_guard_off")
    made = 0
    attempts = 0
    guard_on = guard_mode != "off"
    b.guard_on = guard_on
    while made < nsteps and attempts < nsteps * 3:
        attempts += 1
        if guard_mode == "toggle" and draw(st.integers(0, 4)) == 0:
            guard_on = not guard_on
            b.stmts.append({"k": "guard", "on": guard_on})
            b.labels.add("mem_guard_toggled")
        f = draw(st.sampled_from(fns))
        if f(b) is not None:
            made += 1
    return b


# ------------------------------------------------------------------------------- failing statements (C13)

FAIL_KINDS = ["out_readonly_array", "bad_constant_flag", "shape_assign_copy", "op_shape", "bad_axis", "view_bad_index", "view_bad_reshape", "view_bad_perm", "setitem_shape",
              "setitem_oob", "out_shape", "readonly_target", "aug_shape", "constant_false_int", "cast_out",
              "bad_dtype", "matmul_shape"]


def _ref_rejects(b: Builder, stmt):
    """True iff the NumPy reference raises on `stmt`.  Tried on a scratch copy of the reference
    state, so the real reference is untouched either way."""
    import copy

    r = b.ref
    scratch = RefRun(b.prog)
    for name in ("owner", "const", "is_tensor", "isint", "famver", "D", "created_at", "last_write", "imap", "nwrites"):
        setattr(scratch, name, copy.copy(getattr(r, name)))
    # arrays: copy, but keep read-only flags (needed for the read-only-target failure kind)
    scratch.env = {}
    for h, v in r.env.items():
        c = v.copy(order="K")  # keep F-like layouts (matters for in-place shape assignment)
        c.flags.writeable = v.flags.writeable
        scratch.env[h] = c
    try:
        with np.errstate(all="ignore"):
            scratch.exec(len(b.stmts), stmt)
    except Exception:
        return True
    return False


def step_fail(b: Builder, kind=None, a=None):
    d = b.draw
    kind = kind or d(st.sampled_from(FAIL_KINDS))
    r = b.ref
    tens = [h for h in r.env if r.is_tensor[h] and not r.isint[h]]
    if not tens:
        return None
    a = a if a is not None and a in tens else b.pick(tens)
    shp = b.shape(a)
    nd = len(shp)
    inner = None
    special = False
    if kind == "op_shape":
        if nd == 0 or shp[-1] < 2:
            return None
        c = b.leaf(d(st.sampled_from(["array", "var"])), [shp[-1] + 1])
        name = d(st.sampled_from(["add", "multiply", "op_add", "maximum", "divide"]))
        inner = {"k": "op", "h": -1, "op": name, "args": [a, c]}
    elif kind == "matmul_shape":
        if nd == 0:
            return None
        c = b.leaf("var", [shp[-1] + 1, 2])
        inner = {"k": "op", "h": -1, "op": "matmul", "args": [a, c]}
    elif kind == "bad_axis":
        name = d(st.sampled_from(["sum", "mean", "max", "var", "prod", "cumsum", "softmax"]))
        inner = {"k": "op", "h": -1, "op": name, "args": [a], "p": {"axis": nd + d(st.integers(0, 1))}}
        if nd == 0 and name in ("cumsum", "softmax"):
            return None
    elif kind == "view_bad_index":
        if nd == 0:
            idx = {"t": False, "c": [["i", 0]]}
        else:
            idx = {"t": False, "c": [["i", shp[0] + d(st.integers(0, 2))]]}
        inner = {"k": "op", "h": -1, "op": "getitem", "args": [a], "p": {"index": idx}}
    elif kind == "view_bad_reshape":
        size = int(np.prod(shp)) if nd else 1
        inner = {"k": "op", "h": -1, "op": "reshape", "args": [a], "p": {"shape": [size + 1]}}
    elif kind == "view_bad_perm":
        if nd < 2:
            return None
        inner = {"k": "op", "h": -1, "op": "transpose", "args": [a], "p": {"axes": [0] * nd}}
    elif kind in ("setitem_shape", "setitem_oob", "aug_shape", "out_shape"):
        targets = writable_targets(b)
        t = b.pick(targets)
        if t is None:
            return None
        tshp = b.shape(t)
        if len(tshp) == 0 or tshp[-1] < 1:
            return None
        bad = b.leaf(d(st.sampled_from(["array", "var"])), [tshp[-1] + 1 + d(st.integers(0, 1))])
        if kind == "setitem_shape":
            inner = {"k": "inplace", "kind": "setitem", "target": t, "args": [bad],
                     "p": {"index": {"t": False, "c": [["e"]]}}}
        elif kind == "setitem_oob":
            v = b.scalar_leaf()
            inner = {"k": "inplace", "kind": "setitem", "target": t, "args": [v],
                     "p": {"index": {"t": False, "c": [["i", tshp[0] + d(st.integers(0, 1))]]}}}
        elif kind == "aug_shape":
            inner = {"k": "inplace", "kind": "aug", "op": d(st.sampled_from(["add", "multiply", "subtract"])),
                     "target": t, "args": [bad]}
        else:
            p = {}
            if d(st.booleans()):
                p["via"] = "np"
            inner = {"k": "inplace", "kind": "out", "op": "add", "target": t, "args": [t, bad], "p": p}
    elif kind == "shape_assign_copy":
        # assigning a shape that would need a copy (non-contiguous tensor): NumPy refuses
        # (only memory that a *leaf* owns: the layout of an op result is the kernel's choice - K-order of whatever the
        #  operands' strides were - and the reference may compute the same values with another formula and layout)
        leaf_owned = [h for h in writable_targets(b) if b.ref.owner.get(h) in b.ref.kind]
        cands = [h for h in leaf_owned if b.val(h).ndim >= 2 and not b.val(h).flags.c_contiguous and b.val(h).size > 1]
        if not cands:
            # make one: transpose a tensor that has >= 2 axes of length >= 2
            src = [h for h in leaf_owned if sum(1 for x in b.shape(h) if x >= 2) >= 2]
            if not src:
                return None
            t0 = b.pick(src)
            tv = b.op("T", [t0])
            if tv is None or b.val(tv).flags.c_contiguous:
                return None
            cands = [tv]
        t = b.pick(cands)
        size = int(np.prod(b.shape(t)))
        inner = {"k": "inplace", "kind": "shape", "target": t, "p": {"shape": [size]}}
    elif kind == "readonly_target":
        ro = [h for h, v in r.env.items() if r.is_tensor[h] and not r.isint[h] and not v.flags.writeable and v.size > 0]
        if not ro:
            src = [h for h in tens if b.val(h).size > 0 and b.val(h).ndim <= 2]
            if not src:
                return None
            t0 = b.pick(src)
            tv = b.op("broadcast_to", [t0], {"shape": [2] + list(b.shape(t0))})
            if tv is None:
                return None
            ro = [tv]
        t = b.pick(ro)
        v = b.scalar_leaf()
        inner = {"k": "inplace", "kind": "setitem", "target": t, "args": [v],
                 "p": {"index": {"t": False, "c": [["e"]]}}}
    elif kind == "out_readonly_array":
        # out=<ndarray> that cannot be written: natively read-only, or (memory guard on) the data of an operand
        modes = ["native_ro"] + (["operand_data"] if getattr(b, "guard_on", True) and b.val(a).size > 0 else [])
        mode = d(st.sampled_from(modes))
        if mode == "native_ro":
            c = b.leaf(d(st.sampled_from(["array", "var", "const"])), list(shp))
            inner = {"k": "bad_out", "op": d(st.sampled_from(["add", "multiply"])), "args": [a, c], "mode": mode,
                     "via": d(st.sampled_from(["mg", "mg", "np"]))}
        else:
            inner = {"k": "bad_out", "op": d(st.sampled_from(["exp", "negative"])), "args": [a], "mode": mode, "via": "mg"}
        special = True
    elif kind == "bad_constant_flag":
        # constant= must be a bool or None (a numpy.bool_ is rejected when the result tensor is built, i.e. after the
        # forward pass of the op has run on its inputs)
        name = d(st.sampled_from(["negative", "exp", "sum", "multiply", "add"]))
        args = [a] if name in ("negative", "exp", "sum") else [a, a]
        inner = {"k": "op", "h": -1, "op": name, "args": args, "constant": "np_bool"}
        special = True
    elif kind == "bad_dtype":
        inner = {"k": "op", "h": -1, "op": "add_dtype", "args": [a, a], "p": {"dtype": "not_a_dtype"}}
        special = True
    elif kind == "constant_false_int":
        it = b.leaf("inttensor", [2])
        ia = b.leaf("intarray", [2])
        inner = {"k": "op", "h": -1, "op": d(st.sampled_from(["add", "multiply"])), "args": [it, ia], "constant": False}
        special = True
    elif kind == "cast_out":
        it = b.leaf("inttensor", [2])
        fl = b.leaf("array", [2])
        inner = {"k": "inplace", "kind": "out", "op": "add", "target": it, "args": [it, fl], "p": {}}
        # numpy: np.add(int_arr, float_arr, out=int_arr) -> UFuncTypeError (same_kind casting)
        try:
            x = np.arange(2)
            np.add(x, np.ones(2), out=x)
            return None
        except TypeError:
            special = True
    if inner is None:
        return None
    if not special and not _ref_rejects(b, inner):
        return None
    b.stmts.append({"k": "fail", "why": kind, "stmt": inner})
    b.labels.add("fail_" + kind)
    return -1
