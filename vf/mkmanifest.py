"""Regenerates /verif/MANIFEST.json from the table below (keeps it schema-valid)."""
import json
import os

VERIF = os.path.dirname(os.path.dirname(os.path.abspath(__file__)))

RUN = "PYTHONHASHSEED=0 /venv/bin/python -m vf.run {id} --tier {tier}"

# id -> (technique, level text, level note, design ref)
CHECKS = {
    "C18": (
        "Hypothesis generated tensors + round-trip oracle",
        "Generated search (Hypothesis, seeded by VERIF_SEED) over dtype x shape x origin x gradient x "
        "save-target with a round-trip oracle and a before/after snapshot of the saved tensor; "
        "exploration only, no absence claim.",
        "Trusts numpy.savez/load as storage; sizes <= 4 per axis, ndim <= 3.",
        "DESIGN.md §3 C18",
    ),
}

CHECKS.update({
    "C01": (
        "Hypothesis-generated DAG programs vs NumPy reference interpreter with complex-step derivatives; metamorphic re-ordering",
        "Generated search over programs (state-aware DAG builder, ~100 op spellings) with two oracles: exact "
        "complex-step derivatives through an independent NumPy interpreter for every leaf and intermediate, and "
        "order-independence under random topological re-ordering / commutative swaps. Exploration only.",
        "Trusts NumPy forward kernels and the complex-step identity; tensors <= 24 elements, <= 12 statements; "
        "points within 1e-7 of a kink are only checked structurally.",
        "DESIGN.md §3 C01",
    ),
    "C04": (
        "Hypothesis-generated histories executed in lock-step on MyGrad and NumPy mirrors (model-based invariant after every step)",
        "Model-based search over histories of view creation, reads and in-place updates on any member of any view "
        "family; after every statement values, shapes, dtypes, the full pairwise shares_memory matrix, .base, object "
        "identity and constant flags are compared with NumPy mirrors. Exploration only.",
        "Leaves own their memory; view ops applied to tensors only; size-0 tensors exempt from sharing clauses; <= 16 "
        "elements, <= 16 steps.",
        "DESIGN.md §3 C04",
    ),
    "C05": (
        "Hypothesis-generated in-place/view histories + weighted terminal; complex-step derivatives through NumPy reference with real in-place semantics",
        "Generated search over programs that mutate tensors in place and read them through views before and after; "
        "every live tensor's gradient is compared with the exact complex-step derivative of the same statements run on "
        "NumPy arrays (mutated memory perturbed right after its last write). Exploration only.",
        "Trusts NumPy in-place semantics as the functional meaning; None and all-zero gradients are both accepted "
        "where the reference gradient is identically zero.",
        "DESIGN.md §3 C05",
    ),
})

CHECKS.update({
    "C13": (
        "Hypothesis-generated histories with NumPy-validated failing statements; snapshot oracle + differential against the fail-free program",
        "Generated search over programs x failure positions x 15 failure kinds: MyGrad must raise wherever NumPy "
        "raises, a before/after snapshot of every live tensor and caller array must be equal, and final values and "
        "gradients must equal both the NumPy reference and (bit for bit) a MyGrad run without the failing statements. "
        "Exploration only.",
        "Failing statements are validated on a scratch copy of the NumPy mirrors (two rule-based kinds: constant=False "
        "on integer result, bad dtype=); gradients are not part of the snapshot.",
        "DESIGN.md §3 C13",
    ),
    "C14": (
        "Hypothesis-generated programs x seed gradients; metamorphic L.backward(g) == (L*g).sum().backward(); rejection + shape/dtype invariant",
        "Generated search over programs (float16/32/64), terminal ranks and 14 seed kinds (incl. F-ordered, tensor, "
        "list, int seeds and three non-broadcastable kinds); metamorphic equality of all gradients between the seeded "
        "backward and the explicit reduction, ValueError + no gradient written for non-broadcastable seeds, and the "
        "ndarray/shape/dtype invariant on every stored gradient. Exploration only.",
        "Seed values are dyadic so the cast of g is exact; nnet-layer outputs are covered by C02's per-op invariant.",
        "DESIGN.md §3 C14",
    ),
})

CHECKS.update({
    "C08": (
        "Hypothesis-generated lock histories (arrays, NumPy views, no-copy tensors, ops, out=, in-place, failures, backward/clear/drop in any order) with an independently recomputed must-be-locked set after every step",
        "Generated search over histories of overlapping graphs sharing arrays; after every step the set of arrays that "
        "must be read-only is recomputed by walking creator->inputs from the tensors the harness still holds (never "
        "from the lock manager's counters) and both directions are asserted: locked while live, original flag once no "
        "live graph refers to the array, all original at quiescence. Exploration only.",
        "Relies on CPython refcounting for drops; arrays that never entered an op are not asserted; one documented "
        "upstream leak is a recorded known finding (narrow history signature).",
        "DESIGN.md §3 C08",
    ),
})

CHECKS.update({
    "C10": (
        "Hypothesis-generated DAG programs x flag assignments; flag model + complex-step reference with stop-gradients + metamorphic replacement of constant tensors by ndarrays",
        "Generated search over programs and assignments of constant/non-constant flags and dtypes to leaves and "
        "constant=None/True/False to operations (incl. flagged view ops): the flag of every tensor is compared with an "
        "explicit model, constants must hold no gradient, all other gradients must equal the reference with "
        "stop-gradients, and replacing constant tensor leaves by plain arrays must leave every gradient bit-identical. "
        "Exploration only.",
        "Flag-mixed view chains (non-constant view of constant memory) are compared leniently where the two documented "
        "readings differ; in-place targets' flags are asserted by C04/C05.",
        "DESIGN.md §3 C10",
    ),
})

CHECKS.update({
    "C06": (
        "Hypothesis-generated view trees + ordered consumers; index-map oracle on b.grad, memory-sharing and aliasing clauses, plus complex-step values",
        "Generated search over view chains (depth <= 4) on C/F-ordered or intermediate bases with consumers of varying "
        "kinds and creation order, so that the layout/order of the base's first gradient contribution varies; every "
        "view's gradient must be the view-chain of the base's gradient, share its memory, stay valid on re-read, and "
        "non-overlapping tensors must have non-overlapping gradients. Exploration only.",
        "Index maps come from replaying the view ops on NumPy integer arrays; single epoch; no constant= flags.",
        "DESIGN.md §3 C06",
    ),
})

CHECKS.update({
    "C07": (
        "Hypothesis-generated histories/iterations with GC disabled: cleared-graph invariant, object census by type, gradient staleness rules, bit-identical repetition",
        "Generated search over forward/backward sequences (in-place histories incl. failing statements, or functional "
        "DAGs iterated 2-4 times on the same leaves) with follow-up uses of kept leaves and kept views (second backward, "
        "in-place update of a former view, a new graph epoch built on a kept tensor); asserts the cleared-graph "
        "invariant on everything that was reachable from L, an exact census of live Tensor/Operation instances against "
        "what the harness still references (cyclic GC disabled), the persistence/staleness rules of .grad, and "
        "bit-identical gradients across repetitions. Exploration only.",
        "CPython refcounting; census relative to a per-case baseline; a second backward that is refused with "
        "InvalidBackprop is accepted (C09) and ends the follow-up sequence.",
        "DESIGN.md §3 C07",
    ),
})

CHECKS.update({
    "C09": (
        "Hypothesis-generated three-phase histories (record >=2 terminals sharing tensors; clear/backward/in-place/re-use; final backward) vs complex-step reference of the recorded computation",
        "Generated search over histories in which part of L's graph is cleared before L.backward(): the outcome must be "
        "InvalidBackprop or gradients equal to the reference gradient of the forward computation as recorded at the end "
        "of phase A; tensors overwritten afterwards may not receive a new gradient; other exception types are "
        "violations. Two genuine, test-pinned defects are recorded as known findings with narrow history signatures. "
        "Exploration only.",
        "Reference = NumPy interpreter on the phase-A prefix; overwritten tensors detected by data identity on the "
        "MyGrad side; an InvalidBackprop from an intermediate backward is accepted.",
        "DESIGN.md §3 C09",
    ),
})

CHECKS.update({
    "C02": (
        "Hypothesis-generated one-operation programs over the whole op registry x options x operand kinds/layouts x incoming gradients; complex-step VJP through independent NumPy / naive-loop definitions; exact convention checks",
        "Generated search per operation (95 of 98 registered Operation classes are exercised here, the remaining three "
        "internal ones by C05; the list is measured at run time and written to evidence): every keyword option of the "
        "public signature, broadcasting, 0-d/empty/non-contiguous operands and arbitrary (also F-ordered) incoming "
        "gradients; each operand's gradient is compared with the complex-step derivative of an independent reference, "
        "masked-out elements must receive exactly 0, and the documented conventions at kink points are asserted exactly. "
        "Exploration only.",
        "References are NumPy kernels or naive loops written from the docstrings; ties of max/min reductions and "
        "points within 1e-7 of a kink are checked structurally only; one test-pinned defect (gru output grad shape) is a "
        "recorded known finding.",
        "DESIGN.md §3 C02",
    ),
    "C12": (
        "Hypothesis-generated op / layer / DAG programs with caller-owned arrays, index objects and seed gradients; checksum and sentinel-write oracles",
        "Generated search over all operations and programs with caller-owned ndarrays, observed index objects and "
        "caller-owned seed gradients: checksums before/after forward and backward, tensors' data unchanged by backward, "
        "gradient memory shared only where data memory is shared, sentinel writes into every .grad must not reach any "
        "data, any non-aliasing gradient or the caller's seed, and copies own their data and gradient. Exploration only.",
        "Index objects are observed by wrapping the harness' own decoder; sizes as in C02/C01.",
        "DESIGN.md §3 C12",
    ),
    "C15": (
        "Hypothesis-generated nesting trees of the three scopes (with / decorator / to_numpy, re-entrant, exceptions at any depth) executed with real syntax against a stack model; untracked programs vs NumPy reference",
        "Generated search over nestings of no_autodiff / mem_guard_on / mem_guard_off with try/raise nodes and "
        "turn_memory_guarding_on/off calls at depth 0 and inside mem-guard scope bodies; after every enter/exit/exception the module switches must equal a stack model. Programs run "
        "while tracking is off must equal the NumPy reference and record nothing (no creator/base/consumer, gradients "
        "and writeable flags untouched, in-place writes into the same ndarray), and backward() inside no_autodiff must "
        "not disturb graphs recorded earlier. Exploration only.",
        "Single-threaded; the process-wide switch is flipped at depth 0 (sets the default) and directly inside mem-guard "
        "scope bodies (which must restore their entry setting); not inside no_autodiff or try bodies.",
        "DESIGN.md §3 C15",
    ),
})

CHECKS.update({
    "C03": (
        "Hypothesis-generated differential testing against NumPy's namesakes (values, shape, dtype), tracked and untracked",
        "Generated search over functions (differentiable ufuncs/functions/methods/operators, and the non-differentiable "
        "ufuncs with the comparison and // operators) x operand kinds (tensor, ndarray, python scalars incl. floats that "
        "low-precision dtypes cannot represent, NumPy scalars) x 8 dtypes x layouts x keyword options; NumPy on the underlying arrays is the oracle for shape, dtype and values "
        "(array_equal with equal_nan), both-raise counts as agreement, and the tracked and no_autodiff evaluations must "
        "coincide. Exploration only.",
        "NumPy is the oracle; small values plus a large-magnitude class; one test-pinned defect (the x**1 / x**2 "
        "short-cut ignoring the exponent's dtype) is a recorded known finding.",
        "DESIGN.md §3 C03",
    ),
    "C11": (
        "Hypothesis-generated operands run through every spelling of an operation (function, NumPy dispatch, method, operators incl. reflected/augmented, out=, where=, dtype=); equality of values, dtype, constant flag and gradients",
        "Generated search over operations, operands, flags and options; all available spellings must agree with the "
        "mg.f baseline bit-for-bit in value, dtype and constant flag and in every operand gradient after the same "
        "backward(g); non-differentiable NumPy functions must return plain arrays equal to NumPy, and the const-only "
        "family must raise for any non-constant tensor operand or out=. Exploration only.",
        "Baseline spelling mg.f is itself checked against NumPy by C03 and for gradients by C02.",
        "DESIGN.md §3 C11",
    ),
})

CHECKS.update({
    "C16": (
        "Hypothesis-generated and exhaustively enumerated layer configurations (valid and invalid) against the specification's validity predicate and naive nested-loop references",
        "Generated search over sliding_window_view arguments (types, values, layouts, dtypes) and conv/pool "
        "configurations drawn from the specification's predicate rather than from what the implementation accepts: "
        "acceptance <=> predicate, brute-force element formula, read-only view, byte bounds inside the owning buffer; "
        "valid layer configurations equal naive loops and invalid ones raise; batchnorm, gru and the losses (labels as "
        "arrays or tensors) equal their naive formulas, softmax/logsoftmax equal the documented equations over the whole "
        "float range (spreads up to 10^4, float32/float64). All 1-D conv/pool configurations with X<=8 are enumerated in the quick tier, all 2-D "
        "ones with sides<=4 additionally in the thorough tier (exhaustive for that finite sub-space). Exploration elsewhere.",
        "Reference loops written from the docstrings; gru with dropout=0 only (the only RNG-consuming path is not generated).",
        "DESIGN.md §3 C16",
    ),
    "C17": (
        "Hypothesis-generated cells of the construction/conversion lattice against a decision table taken from the docstrings; NumPy as value oracle",
        "Generated search over input kind x entry point x dtype x constant x copy x ndmin and over creation-routine "
        "arguments; the aliasing outcome, identity pass-through, detachment, dtype/values (vs numpy.array / NumPy's "
        "creation routines), the constant=False gate for integer data and the rejection of non-real dtypes are compared "
        "with an explicit decision table. Exploration only.",
        "Decision table written from the docstrings of tensor/astensor/asarray/copy/astype; numpy is the value oracle.",
        "DESIGN.md §3 C17",
    ),
})

NOT_YET = {
}


def main():
    props = [json.loads(l) for l in open(os.path.join(VERIF, "properties.jsonl"))]
    checks = []
    na = []
    for p in props:
        pid = p["id"]
        if pid in CHECKS:
            tech, text, note, ref = CHECKS[pid]
            checks.append(
                {
                    "property_id": pid,
                    "quick_cmd": RUN.format(id=pid, tier="quick"),
                    "thorough_cmd": RUN.format(id=pid, tier="thorough"),
                    "evidence_file": f"/verif/evidence/{pid}.json",
                    "replay_cmd_template": f"PYTHONHASHSEED=0 /venv/bin/python -m vf.run {pid} --replay {{path}}",
                    "engine": "vf",
                    "level_claimed": {"category": "exploration", "text": text, "design_ref": ref},
                    "level_note": note,
                    "technique": tech,
                }
            )
        else:
            na.append({"property_id": pid, "reason": NOT_YET.get(pid, "check not built yet in this round (planned, see DESIGN.md §3); not claimed until it is quiet on the unchanged tree")})
    man = {
        "version": 1,
        "setup_cmd": "/venv/bin/python -c 'import hypothesis, numpy, mygrad' || /venv/bin/pip install --no-index --find-links /opt/veriftools/wheels hypothesis",
        "hooks": {
            "guard": "MYGRAD_VERIF",
            "enable": "no hooks: checks import mygrad from /repo/src (editable install) and observe public attributes only",
            "baseline_off_cmd": "cd /repo && /venv/bin/python -m pytest -q -p no:cacheprovider -n 16 --timeout=900",
            "source_commits": [],
            "add_only": True,
        },
        "engines": [
            {
                "name": "vf",
                "path": "/verif/vf",
                "serves_properties": sorted(CHECKS),
                "kind_free_text": "Hypothesis-driven generated search (given / composite strategies / stateful-style histories as data) with explicit oracles: NumPy reference interpreter with complex-step derivatives, differential NumPy comparison, model-based invariants; 16 seeded shards per check",
            }
        ],
        "checks": checks,
        "notes": "All randomness derives from VERIF_SEED via hypothesis.seed(); harness errors exit 2; known findings in /verif/known_findings.json.",
        "not_applicable": na,
    }
    with open(os.path.join(VERIF, "MANIFEST.json"), "w") as f:
        json.dump(man, f, indent=1)
        f.write("\n")


if __name__ == "__main__":
    main()
