"""Runner:  cd /verif && PYTHONHASHSEED=0 /venv/bin/python -m vf.run <Cxx> --tier quick|thorough
                                                                   [--replay PATH]

Exit codes: 0 held on everything explored (KNOWN-FINDING lines allowed); 1 violation
(prints ``VIOLATION property=<id> replay=<path>``); 2 harness error.
"""

from __future__ import annotations

import argparse
import importlib
import json
import os
import sys
import time
import traceback
from concurrent.futures import ProcessPoolExecutor
import multiprocessing as mp

VERIF = os.path.dirname(os.path.dirname(os.path.abspath(__file__)))


def _worker(module_name, shard, seed, tier):
    """Runs in a fresh interpreter."""
    os.environ.setdefault("PYTHONHASHSEED", "0")
    import warnings

    warnings.simplefilter("ignore")
    try:
        import numpy as np

        np.seterr(all="ignore")
        from vf import common

        common.assert_repo_under_test()
        mod = importlib.import_module(module_name)
        import gc
        import hypothesis  # noqa: F401
        import mygrad  # noqa: F401

        gc.collect()
        gc.freeze()  # makes the per-case gc.collect() in reset_mygrad() cheap
        t0 = time.time()
        if shard == "__regress__":
            res = _regress(mod, module_name.split(".")[-1].upper())
        else:
            res = mod.run_shard(shard, seed, tier)
        res["wall_s"] = time.time() - t0
        res["shard"] = shard
        return res
    except BaseException as e:  # harness error
        return {"harness_error": traceback.format_exc(), "shard": shard}


def _regress(mod, prop):
    """Seconds-long regression tier: saved minimal cases of repaired defects (must pass) and
    of recorded findings (reported as KNOWN-FINDING while they still fail)."""
    import glob

    from vf import common, known as _known

    rec = common.Recorder()
    out = rec.result()
    files = sorted(glob.glob(os.path.join(VERIF, "regress", prop, "*.json")))
    for path in files:
        with open(path) as f:
            rep = json.load(f)
        mm = mod.replay(rep.get("check"), rep["case"])
        out["evaluations"] += 1
        out["classes"]["regression_case"] = out["classes"].get("regression_case", 0) + 1
        if mm is None:
            continue
        kid = _known.match(prop, rep["case"], mm)
        if kid is not None:
            out["known"][kid] = out["known"].get(kid, 0) + 1
            continue
        out["violations"].append(
            {"check": rep.get("check"), "case": rep["case"], "mismatch": mm.to_json(),
             "regress_file": os.path.relpath(path, VERIF)}
        )
    return out


def _trim(tb):
    lines = tb.splitlines()
    keep = [l for l in lines if l.startswith("  File \"/verif") or (l and not l.startswith(" "))]
    return "\n".join(keep[:60])[:3000]


def load_known():
    p = os.path.join(VERIF, "known_findings.json")
    if not os.path.exists(p):
        return []
    with open(p) as f:
        return json.load(f).get("findings", [])


def main(argv=None):
    ap = argparse.ArgumentParser()
    ap.add_argument("prop")
    ap.add_argument("--tier", default=os.environ.get("VERIF_TIER", "quick"))
    ap.add_argument("--replay", default=None)
    ap.add_argument("--jobs", type=int, default=int(os.environ.get("VERIF_JOBS", "16")))
    ap.add_argument("--only", default=None, help="run only shards whose name contains this")
    ap.add_argument("--no-evidence", action="store_true")
    args = ap.parse_args(argv)

    prop = args.prop.upper()
    tier = args.tier if args.tier in ("quick", "thorough") else "quick"
    seed = int(os.environ.get("VERIF_SEED", "1") or "1")
    module_name = f"vf.checks.{prop.lower()}"

    sys.path.insert(0, VERIF)
    os.chdir(VERIF)

    import warnings

    warnings.simplefilter("ignore")
    try:
        from vf import common

        common.assert_repo_under_test()
        mod = importlib.import_module(module_name)
    except BaseException:
        traceback.print_exc()
        print(f"HARNESS-ERROR property={prop}: cannot import check / mygrad")
        return 2

    known = [k for k in load_known() if k.get("property") == prop]
    known_open = {k["id"]: k for k in known if k.get("status") == "open"}

    # ------------------------------------------------------------------ replay
    if args.replay:
        with open(args.replay) as f:
            rep = json.load(f)
        import numpy as np

        np.seterr(all="ignore")
        mm = mod.replay(rep.get("check"), rep["case"])
        if mm is None:
            print(f"replay: property={prop} case passes")
            return 0
        from vf import known as _known

        kid = _known.match(prop, rep["case"], mm)
        if kid is not None and kid in known_open:
            print(f"KNOWN-FINDING: property={prop} {known_open[kid]['what_fails']}")
            return 0
        print(f"replay mismatch: {mm!r}")
        print(f"VIOLATION property={prop} replay={args.replay}")
        return 1

    # ------------------------------------------------------------------ run shards
    t0 = time.time()
    plan = list(mod.shard_plan(tier))
    if args.only:
        plan = [s for s in plan if args.only in s]
    if os.path.isdir(os.path.join(VERIF, "regress", prop)):
        plan = ["__regress__"] + plan
    jobs = []
    ctx = mp.get_context("spawn")
    results = []
    with ProcessPoolExecutor(max_workers=min(args.jobs, max(1, len(plan))), mp_context=ctx) as ex:
        for i, shard in enumerate(plan):
            sseed = common.derive_seed(seed, prop, shard)
            jobs.append(ex.submit(_worker, module_name, shard, sseed, tier))
        for j in jobs:
            results.append(j.result())

    harness_errors = [r for r in results if "harness_error" in r]
    if harness_errors:
        for r in harness_errors:
            print(f"--- harness error in shard {r['shard']}:\n{_trim(r['harness_error'])}")
        print(f"HARNESS-ERROR property={prop}")
        return 2

    evaluations = sum(r["evaluations"] for r in results)
    nontrivial = set()
    classes = {}
    samples = []
    knowns = {}
    flaky = 0
    violations = []
    extra = {}
    for r in results:
        nontrivial.update(r["nontrivial"])
        for k, v in r["classes"].items():
            classes[k] = classes.get(k, 0) + v
        for k, v in r["known"].items():
            knowns[k] = knowns.get(k, 0) + v
        flaky += r["flaky_discarded"]
        violations.extend(r["violations"])
        for k, v in r.get("extra", {}).items():
            if isinstance(v, (int, float)) and not isinstance(v, bool):
                extra[k] = extra.get(k, 0) + v
            elif isinstance(v, list):
                extra.setdefault(k, [])
                for item in v:
                    if item not in extra[k]:
                        extra[k].append(item)
            else:
                extra[k] = v
    # samples: round-robin across shards, at most 5
    pools = [list(r["samples"]) for r in results]
    while len(samples) < 5 and any(pools):
        for p in pools:
            if p and len(samples) < 5:
                samples.append(p.pop())

    # ------------------------------------------------------------------ violations
    replay_paths = []
    if violations:
        os.makedirs(os.path.join(VERIF, "evidence", "replay"), exist_ok=True)
        seen = set()
        for v in violations:
            h = common.case_hash([v["check"], v["case"]])
            if h in seen:
                continue
            seen.add(h)
            path = os.path.join("evidence", "replay", f"{prop}-{h}.json")
            with open(os.path.join(VERIF, path), "w") as f:
                json.dump({"property": prop, **v}, f, indent=1)
            replay_paths.append((path, v))

    wall = time.time() - t0
    if not args.no_evidence:
        ev = {
            "property_id": prop,
            "tier": tier,
            "seed": seed,
            "level": "exploration",
            "coverage": {
                "evaluations": int(evaluations),
                "distinct_nontrivial": len(nontrivial),
                "rule": getattr(mod, "RULE", ""),
                "samples": samples,
                "classes": dict(sorted(classes.items())),
                "excluded_known": knowns,
                "flaky_discarded": flaky,
                "shards": len(results),
                **extra,
            },
            "assumptions": getattr(mod, "ASSUMPTIONS", []),
            "wall_s": round(wall, 2),
            "violations": len(replay_paths),
        }
        if getattr(mod, "EXHAUSTIVE_NOTE", None) and tier == "thorough":
            ev["coverage"]["exhaustive_subspace"] = mod.EXHAUSTIVE_NOTE
        os.makedirs(os.path.join(VERIF, "evidence"), exist_ok=True)
        with open(os.path.join(VERIF, "evidence", f"{prop}.json"), "w") as f:
            json.dump(ev, f, indent=1, sort_keys=False)
            f.write("\n")

    if os.environ.get("VERIF_DEBUG"):
        for r in sorted(results, key=lambda r: -r.get("wall_s", 0))[:6]:
            print(f"   shard {r['shard']}: {r.get('wall_s', 0):.1f}s, {r['evaluations']} cases")
    print(
        f"{prop} tier={tier} seed={seed}: {evaluations} cases, {len(nontrivial)} distinct non-trivial, "
        f"{len(results)} shards, {wall:.1f}s"
    )
    for kid, n in sorted(knowns.items()):
        what = known_open.get(kid, {}).get("what_fails", kid)
        print(f"KNOWN-FINDING: property={prop} {what} (hit {n}x, id={kid})")
    if replay_paths:
        for path, v in replay_paths:
            print(f"  mismatch [{v['check']}]: {v['mismatch']}")
            print(f"VIOLATION property={prop} replay={path}")
        return 1
    return 0


if __name__ == "__main__":
    sys.exit(main())
