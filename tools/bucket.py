#!/usr/bin/env python3
"""collect-then-bucket: run a check's cases without stopping at the first failure.
usage: tools/bucket.py <module> <strategy-attr> <n> [seed]"""
import collections, importlib, json, sys, warnings
warnings.simplefilter("ignore")
sys.path.insert(0, "/verif")
import numpy as np
np.seterr(all="ignore")
from hypothesis import given, settings, seed, HealthCheck, Phase
mod = importlib.import_module(sys.argv[1]); strat = getattr(mod, sys.argv[2])(); n = int(sys.argv[3]); sd = int(sys.argv[4]) if len(sys.argv) > 4 else 7
buckets = collections.Counter(); examples = {}
import re
@seed(sd)
@settings(max_examples=n, deadline=None, database=None, suppress_health_check=list(HealthCheck), phases=[Phase.generate])
@given(strat)
def t(case):
    try:
        mm = mod.check_case(case)
    except Exception as e:
        mm = type("M", (), {"kind": "HARNESS " + type(e).__name__, "detail": str(e)[:100]})()
    if mm is not None:
        key = (mm.kind, re.sub(r"[-0-9.e+]+", "#", mm.detail)[:110])
        buckets[key] += 1
        if key not in examples or len(json.dumps(case, default=str)) < len(json.dumps(examples[key], default=str)):
            examples[key] = case
t()
for k, v in buckets.most_common(60):
    print(v, k)
json.dump([[list(k), v] for k, v in examples.items()], open("/tmp/wt/buckets.json", "w"), default=str)
