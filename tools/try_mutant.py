#!/usr/bin/env python3
"""Apply a seeded patch to /repo, run the named checks (quick, no evidence), revert.
usage: tools/try_mutant.py <patch.diff> C01 C04 ...   -> prints per check: CAUGHT / missed / harness-error"""
import os
import subprocess
import sys
import time

patch = os.path.abspath(sys.argv[1])
props = sys.argv[2:]
env = dict(os.environ, PYTHONHASHSEED="0")
st = subprocess.run(["git", "-C", "/repo", "status", "--porcelain", "--untracked-files=no"], capture_output=True, text=True)
if st.stdout.strip():
    sys.exit("refusing: /repo has uncommitted changes")
subprocess.run(["git", "-C", "/repo", "apply", patch], check=True)
try:
    for p in props:
        t0 = time.time()
        r = subprocess.run(["/venv/bin/python", "-m", "vf.run", p, "--tier", "quick", "--no-evidence"], cwd="/verif",
                           env=env, capture_output=True, text=True)
        verdict = {0: "missed", 1: "CAUGHT", 2: "harness-error"}.get(r.returncode, f"exit{r.returncode}")
        lines = [l for l in r.stdout.splitlines() if "mismatch" in l][:2]
        print(f"{os.path.basename(os.path.dirname(patch))}/{os.path.basename(patch)} {p}: {verdict} ({time.time()-t0:.0f}s)")
        for l in lines:
            print("     ", l[:230])
        if r.returncode == 2:
            print(r.stdout[-800:])
finally:
    subprocess.run(["git", "-C", "/repo", "checkout", "--", "."], check=True)
    # drop replay files produced by the mutant run
    rd = "/verif/evidence/replay"
    if os.path.isdir(rd):
        for f in os.listdir(rd):
            os.remove(os.path.join(rd, f))
