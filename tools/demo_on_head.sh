#!/bin/bash
# usage: demo_on_head.sh <seed-dir>  -> runs demo on a scratch worktree of /repo HEAD with and without the patch
SD=$1; WT=/tmp/wt/cur
cd $WT && git checkout -q --detach $(git -C /repo rev-parse HEAD) 2>/dev/null; git checkout -q -- .
export PYTHONPATH=$WT/src
/venv/bin/python $SD/demo.py >/dev/null 2>&1; PRE=$?
if git apply --check $SD/patch.diff 2>/dev/null; then git apply $SD/patch.diff; /venv/bin/python $SD/demo.py >/dev/null 2>&1; POST=$?; git checkout -q -- .; else POST=noapply; fi
echo "HEAD-DEMO $SD pristine_exit=$PRE patched_exit=$POST"
