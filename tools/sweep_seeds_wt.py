#!/usr/bin/env python3
"""Like sweep_seeds.py, but through tools/try_mutant_wt.sh (patched scratch worktree, /repo untouched).
usage: tools/sweep_seeds_wt.py [out.json] [only-substring ...]"""
import json, os, re, subprocess, sys

out = sys.argv[1] if len(sys.argv) > 1 else "/tmp/wt/sweep_wt.json"
only = sys.argv[2:]
res = {}
for sid in sorted(os.listdir("/verif/seeded")):
    if only and not any(o in sid for o in only):
        continue
    d = os.path.join("/verif/seeded", sid)
    meta = json.load(open(os.path.join(d, "meta.json")))
    checks = re.findall(r"C\d\d", meta.get("caught_by", "").split("(")[0]) or [meta["property"]]
    verdict, lines = "missed", []
    for c in dict.fromkeys(checks):
        r = subprocess.run(["/verif/tools/try_mutant_wt.sh", os.path.join(d, "patch.diff"), c], capture_output=True, text=True)
        line = (r.stdout.strip().splitlines() or ["? " + r.stderr[-200:]])[0]
        lines.append(line)
        if "CAUGHT" in line:
            verdict = "CAUGHT by " + c
            break
        if "missed" not in line:
            verdict = "error"
    res[sid] = {"checks": checks, "verdict": verdict, "lines": lines}
    print(sid, checks, verdict, flush=True)
    json.dump(res, open(out, "w"), indent=1)
