#!/usr/bin/env python3
"""usage: keep_seed.py <seed-dir> <seed-id> <property> "<needs>" "<caught-by>"  -> copies into /verif/seeded/<seed-id>/ with meta.json"""
import json, os, shutil, subprocess, sys
sd, sid, prop, needs, caught = sys.argv[1:6]
base = subprocess.check_output(["git", "-C", "/repo", "rev-parse", "--short", "HEAD"], text=True).strip()
suite = sys.argv[6] if len(sys.argv) > 6 else "2322 passed, 9 skipped, 1 xpassed"
dst = f"/verif/seeded/{sid}"
os.makedirs(dst, exist_ok=True)
for f in ("patch.diff", "demo.py", "notes.md"):
    if os.path.exists(os.path.join(sd, f)):
        shutil.copy(os.path.join(sd, f), os.path.join(dst, f))
meta = {
    "id": sid,
    "property": prop,
    "needs_to_manifest": needs,
    "confirmed": {
        "suite_with_patch": f"{suite} (tools/confirm_seed.sh in a scratch worktree, base commit {base})",
        "demo": f"exit 0 on pristine, exit 1 with patch (scratch worktree at /repo HEAD {base})",
        "applies_to_repo_head": True,
    },
    "caught_by": caught,
    "how_to_run": f"git -C /repo apply /verif/seeded/{sid}/patch.diff; <check quick cmd>; git -C /repo checkout -- .   (or tools/try_mutant.py)",
}
json.dump(meta, open(os.path.join(dst, "meta.json"), "w"), indent=1)
print("kept", sid)
