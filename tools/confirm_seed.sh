#!/bin/bash
# usage: confirm_seed.sh <worktree> <seed-dir>   (seed-dir holds patch.diff and demo.py)
# Confirms: patch applies, full suite passes with it, demo fails with it and passes without it.
WT=$1; SD=$2
cd $WT || exit 2
git checkout -q -- . 
[ -f src/mygrad/_version.py ] || cp /repo/src/mygrad/_version.py src/mygrad/_version.py
export PYTHONPATH=$WT/src
git apply --check $SD/patch.diff || { echo "RESULT $SD patch-does-not-apply"; exit 1; }
git -C /repo apply --check $SD/patch.diff 2>/dev/null && REPOAPPLY=applies-to-repo || REPOAPPLY=NOT-APPLY-TO-REPO
/venv/bin/python $SD/demo.py >/dev/null 2>&1; PRE=$?
git apply $SD/patch.diff
/venv/bin/python $SD/demo.py >/dev/null 2>&1; POST=$?
SUITE=$(/venv/bin/python -m pytest -q -p no:cacheprovider -n ${NPROC:-8} --timeout=900 tests 2>&1 | tail -1)
git checkout -q -- .
echo "RESULT $SD demo_pristine_exit=$PRE demo_patched_exit=$POST $REPOAPPLY suite: $SUITE"
