#!/usr/bin/env python3
"""Re-run every kept seeded change against the check(s) recorded as catching it (quick tier).
usage: tools/sweep_seeds.py [out.json]   -- applies each patch to /repo in turn and reverts it (never run in parallel
with anything else that reads /repo)."""
import json, os, re, subprocess, sys

out = sys.argv[1] if len(sys.argv) > 1 else "/tmp/wt/sweep.json"
res = {}
for sid in sorted(os.listdir("/verif/seeded")):
    d = os.path.join("/verif/seeded", sid)
    meta = json.load(open(os.path.join(d, "meta.json")))
    cb = meta.get("caught_by", "")
    checks = re.findall(r"C\d\d", cb.split("(")[0]) or [meta["property"]]
    verdict, lines = "missed", []
    for c in dict.fromkeys(checks):
        r = subprocess.run(["/venv/bin/python", "/verif/tools/try_mutant.py", os.path.join(d, "patch.diff"), c],
                           capture_output=True, text=True, cwd="/verif")
        line = (r.stdout.strip().splitlines() or ["? " + r.stderr[-200:]])[0]
        lines.append(line)
        if "CAUGHT" in line:
            verdict = "CAUGHT by " + c
            break
        if "missed" not in line:
            verdict = "error"
    res[sid] = {"checks": checks, "verdict": verdict, "lines": lines}
    print(sid, checks, verdict, flush=True)
    json.dump(res, open(out, "w"), indent=1)
