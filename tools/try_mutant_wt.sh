#!/bin/bash
# usage: try_mutant_wt.sh <patch.diff> Cxx [Cyy ...]   -- like try_mutant.py but applies the patch to the scratch
# worktree /tmp/wt/cur (kept at /repo HEAD) and points the checks at it with VERIF_SRC_OVERRIDE, so /repo itself is
# never touched (safe to run next to other checks).  Tooling only: registered commands never set the override.
P=$1; shift
WT=${MUTANT_WT:-/tmp/wt/cur}
# the scratch worktree is created on demand; remove it when done: git -C /repo worktree remove --force $WT
[ -d $WT ] || { mkdir -p $(dirname $WT); git -C /repo worktree add -q --detach $WT HEAD; }
cd $WT && git checkout -q -- . && git checkout -q --detach $(git -C /repo rev-parse HEAD) && git apply $P || { echo "patch does not apply"; exit 2; }
[ -f $WT/src/mygrad/_version.py ] || cp /repo/src/mygrad/_version.py $WT/src/mygrad/_version.py
cd /verif
for c in "$@"; do
  t0=$(date +%s)
  out=$(PYTHONPATH=$WT/src VERIF_SRC_OVERRIDE=$WT/src PYTHONHASHSEED=0 VERIF_REPLAY_DIR=/tmp/wt/replay_mut /venv/bin/python -m vf.run $c --tier ${TIER:-quick} --no-evidence 2>&1); rc=$?
  v=missed; [ $rc = 1 ] && v=CAUGHT; [ $rc = 2 ] && v=harness-error
  echo "$(basename $(dirname $P)) $c: $v ($(( $(date +%s) - t0 ))s)"
  echo "$out" | grep mismatch | head -2 | cut -c1-230
  [ $rc = 2 ] && echo "$out" | tail -15
done
cd $WT && git checkout -q -- .
